#!/bin/sh
# Entry point used by MANIFEST.json commands: ./verif.sh check <id> <tier> | replay <file> | selftest
set -e
HERE="$(cd "$(dirname "$0")" && pwd)"
export GOFLAGS=-mod=mod GOPROXY=off GOSUMDB=off GOTOOLCHAIN=local
if [ ! -x "$HERE/bin/govc" ] || [ -n "$(find "$HERE/engine" -name '*.go' -newer "$HERE/bin/govc" 2>/dev/null | head -1)" ]; then
  mkdir -p "$HERE/bin"
  (cd "$HERE/engine" && go build -o "$HERE/bin/govc" .) >&2
fi
cmd="$1"; shift
case "$cmd" in
  check)  id="$1"; tier="${2:-${VERIF_TIER:-quick}}"; exec "$HERE/bin/govc" check "$id" --tier "$tier" --repo "${VERIF_REPO:-/repo}" --verif "$HERE" ;;
  replay) exec "$HERE/bin/govc" replay "$1" --repo "${VERIF_REPO:-/repo}" --verif "$HERE" ;;
  selftest) exec python3 "$HERE/tools/selftest.py" "$@" ;;
  *) echo "usage: verif.sh check <id> [quick|thorough] | replay <file> | selftest" >&2; exit 2 ;;
esac
