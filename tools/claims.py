# Claimed properties and not-applicable reasons (consumed by gen_manifest.py).
PENDING = "not yet built in this round: see DESIGN.md §6 for the planned contracts; no check is registered until it exists and passes its self-test"

CLAIMS = {
    "C05": {
        "level": "Proof (all inputs, no bound on values) of the bound-normalisation contract: for every finite minimum/maximum/exclusive* presence pattern and value, the interval NormalizeBounds returns admits x iff x satisfies every stated bound (exclusive wins on a tie), per side, plus frame and result-shape posts.",
        "note": "Functions under contract, obligation families, known findings and repaired defects for this property: DESIGN.md section 0 (row C05). The property quantifies over all schemas; what is decided are contracts on the functions that carry its boundary-sensitive logic, scenario contracts on arms of the recursive generator and flow/sweep obligations; the composition through the whole generator is argued in DESIGN.md, not machine-checked.",
        "technique": "contract-based deductive verification: VCs from go/ssa discharged by SMT (LRA)",
        "design_ref": "DESIGN.md §6 C05",
    },
    "C15": {
        "level": "Proof for all bound values (stated bound: |b| not strictly between 2^53 and 2^54) and all presence/kind patterns that the type chosen under --min-sized-ints represents every admitted integer, that a bound is dropped only when the type implies it and no surviving bound moves, that the type is the narrowest, and that the schema's own numbers are not modified (frame).",
        "note": "Functions under contract, obligation families, known findings and repaired defects for this property: DESIGN.md section 0 (row C15). The property quantifies over all schemas; what is decided are contracts on the functions that carry its boundary-sensitive logic, scenario contracts on arms of the recursive generator and flow/sweep obligations; the composition through the whole generator is argued in DESIGN.md, not machine-checked.",
        "technique": "contract-based deductive verification: modular VCs from go/ssa discharged by SMT (LIRA)",
        "design_ref": "DESIGN.md §6 C15",
    },
    "C06": {
        "level": "Proof that the emitted string guards reject iff the value violates minLength/maxLength/pattern (characters; byte-length defect recorded as known finding), nil never checked, no panic.",
        "note": "Functions under contract, obligation families, known findings and repaired defects for this property: DESIGN.md section 0 (row C06). The property quantifies over all schemas; what is decided are contracts on the functions that carry its boundary-sensitive logic, scenario contracts on arms of the recursive generator and flow/sweep obligations; the composition through the whole generator is argued in DESIGN.md, not machine-checked.",
        "technique": "contract-based deductive verification: stage-1 symbolic execution of the emitter, stage-2 meaning of the emitted guards, SMT",
        "design_ref": "DESIGN.md §6 C06",
    },
    "C07": {
        "level": "Proof per nesting level (emitter depth bounded 1..4, labelled) that the emitted guards reject iff the level's array is non-nil and outside [minItems,maxItems]; indices are the loops' own variables.",
        "note": "Functions under contract, obligation families, known findings and repaired defects for this property: DESIGN.md section 0 (row C07). The property quantifies over all schemas; what is decided are contracts on the functions that carry its boundary-sensitive logic, scenario contracts on arms of the recursive generator and flow/sweep obligations; the composition through the whole generator is argued in DESIGN.md, not machine-checked.",
        "technique": "contract-based deductive verification: stage-1 symbolic execution of the emitter, stage-2 meaning of the emitted guards, SMT",
        "design_ref": "DESIGN.md §6 C07",
    },
    "C04": {
        "level": "Proof that the emitted required-guard rejects iff the raw map is non-nil and lacks the key; desc() flags place it before the typed decode.",
        "note": "Functions under contract, obligation families, known findings and repaired defects for this property: DESIGN.md section 0 (row C04). The property quantifies over all schemas; what is decided are contracts on the functions that carry its boundary-sensitive logic, scenario contracts on arms of the recursive generator and flow/sweep obligations; the composition through the whole generator is argued in DESIGN.md, not machine-checked.",
        "technique": "contract-based deductive verification: stage-1 symbolic execution of the emitter, stage-2 meaning of the emitted guards, SMT",
        "design_ref": "DESIGN.md §6 C04",
    },
    "C09": {
        "level": "Proof that the emitted default guard assigns iff the key is absent or null, never rejects, never panics.",
        "note": "Functions under contract, obligation families, known findings and repaired defects for this property: DESIGN.md section 0 (row C09). The property quantifies over all schemas; what is decided are contracts on the functions that carry its boundary-sensitive logic, scenario contracts on arms of the recursive generator and flow/sweep obligations; the composition through the whole generator is argued in DESIGN.md, not machine-checked.",
        "technique": "contract-based deductive verification: stage-1 symbolic execution of the emitter, stage-2 meaning of the emitted guards, SMT",
        "design_ref": "DESIGN.md §6 C09",
    },
    "C03": {
        "level": "Proof that the emitted null guard rejects iff the element is non-nil at the stated depth (0..4).",
        "note": "Functions under contract, obligation families, known findings and repaired defects for this property: DESIGN.md section 0 (row C03). The property quantifies over all schemas; what is decided are contracts on the functions that carry its boundary-sensitive logic, scenario contracts on arms of the recursive generator and flow/sweep obligations; the composition through the whole generator is argued in DESIGN.md, not machine-checked.",
        "technique": "contract-based deductive verification: stage-1 symbolic execution of the emitter, stage-2 meaning of the emitted guards, SMT",
        "design_ref": "DESIGN.md §6 C03",
    },
    "C11": {
        "level": "Proof (anyOf half; branch count 1..4) that the emitted block rejects iff every branch unmarshaler failed.",
        "note": "Functions under contract, obligation families, known findings and repaired defects for this property: DESIGN.md section 0 (row C11). The property quantifies over all schemas; what is decided are contracts on the functions that carry its boundary-sensitive logic, scenario contracts on arms of the recursive generator and flow/sweep obligations; the composition through the whole generator is argued in DESIGN.md, not machine-checked.",
        "technique": "contract-based deductive verification: stage-1 symbolic execution of the emitter, stage-2 meaning of the emitted guards, SMT",
        "design_ref": "DESIGN.md §6 C11",
    },
    "C19": {
        "level": "Proof that every validator fragment is panic-free under its nil-guards, never mentions the receiver, leaves indentation balanced.",
        "note": "Functions under contract, obligation families, known findings and repaired defects for this property: DESIGN.md section 0 (row C19). The property quantifies over all schemas; what is decided are contracts on the functions that carry its boundary-sensitive logic, scenario contracts on arms of the recursive generator and flow/sweep obligations; the composition through the whole generator is argued in DESIGN.md, not machine-checked.",
        "technique": "contract-based deductive verification: stage-1 symbolic execution of the emitter, stage-2 meaning of the emitted guards, SMT",
        "design_ref": "DESIGN.md §6 C19",
    },
    "C01": {
        "level": "Proof of necessary conditions: every emitted fragment parses; package use matches the import conditions stated in the contracts.",
        "note": "Functions under contract, obligation families, known findings and repaired defects for this property: DESIGN.md section 0 (row C01). The property quantifies over all schemas; what is decided are contracts on the functions that carry its boundary-sensitive logic, scenario contracts on arms of the recursive generator and flow/sweep obligations; the composition through the whole generator is argued in DESIGN.md, not machine-checked.",
        "technique": "contract-based deductive verification: stage-1 symbolic execution of the emitter, stage-2 meaning of the emitted guards, SMT",
        "design_ref": "DESIGN.md §6 C01",
    },
    "C02": {
        "level": "Proof of the no-over-rejection halves of the validator posts (spec(x) ==> not rejected) and of bound normalisation.",
        "note": "Functions under contract, obligation families, known findings and repaired defects for this property: DESIGN.md section 0 (row C02). The property quantifies over all schemas; what is decided are contracts on the functions that carry its boundary-sensitive logic, scenario contracts on arms of the recursive generator and flow/sweep obligations; the composition through the whole generator is argued in DESIGN.md, not machine-checked.",
        "technique": "contract-based deductive verification: stage-1 symbolic execution of the emitter, stage-2 meaning of the emitted guards, SMT",
        "design_ref": "DESIGN.md §6 C02",
    },
    "C17": {
        "level": "Relational proof: yamlFormatter.generate emits, path for path, the same text as jsonFormatter.generate modulo the method header and the decode call (abstract validators, at most 3); every validator's emitted text is independent of the format argument (anyOf: method name only); validators do not modify their own state when emitting (frame), so the second emission equals the first.",
        "note": "Functions under contract, obligation families, known findings and repaired defects for this property: DESIGN.md section 0 (row C17). The property quantifies over all schemas; what is decided are contracts on the functions that carry its boundary-sensitive logic, scenario contracts on arms of the recursive generator and flow/sweep obligations; the composition through the whole generator is argued in DESIGN.md, not machine-checked.",
        "technique": "contract-based deductive verification: relational (twin) obligation over stage-1 symbolic execution of both emitters",
        "design_ref": "DESIGN.md §6 C17",
    },
    "C14": {
        "level": "Proof, for all strings and with no bound on their length (loop invariants, quantified SMT), that Identifierize and IdentifierFromFileName return a non-empty text of letters and decimal digits whose first rune is upper case (a valid exported Go identifier), under the stated precondition that the configured capitalizations are alphanumeric; proof of the struct-field half: tags carry the exact property name for every configured tag, JSONName is the property name, the final base name (after an explicit identifier override) is the one recorded for de-duplication; distinct type names (uniqueTypeName).",
        "note": "Functions under contract, obligation families, known findings and repaired defects for this property: DESIGN.md section 0 (row C14). The property quantifies over all schemas; what is decided are contracts on the functions that carry its boundary-sensitive logic, scenario contracts on arms of the recursive generator and flow/sweep obligations; the composition through the whole generator is argued in DESIGN.md, not machine-checked.",
        "technique": "contract-based deductive verification: VCs from go/ssa discharged by SMT; loop-invariant rule with quantified rune-sequence obligations for the identifier state machine (z3 5.1 / cvc5 / z3 4.8 raced)",
        "design_ref": "DESIGN.md §6 C14",
    },
    "C18": {
        "level": "Proof, in abstract mode over go/ssa, that every error-returning call site of main, pkg/generator, pkg/schemas, pkg/codegen and internal/x/text propagates a non-nil error on every path (or reaches abort/os.Exit/panic), except the deliberate drops listed with a reason in the contract files; plus panic-freedom of listed helper functions under safety contracts (upperFirst total, lowerFirst under its precondition checked at its call site, stringSliceToStringMap).",
        "note": "Functions under contract, obligation families, known findings and repaired defects for this property: DESIGN.md section 0 (row C18). The property quantifies over all schemas; what is decided are contracts on the functions that carry its boundary-sensitive logic, scenario contracts on arms of the recursive generator and flow/sweep obligations; the composition through the whole generator is argued in DESIGN.md, not machine-checked.",
        "technique": "contract-based deductive verification: abstract-mode path obligations over go/ssa, safety obligations discharged by SMT, unit and end-to-end replay",
        "design_ref": "DESIGN.md §6 C18",
    },
    "C12": {
        "level": "Sweep obligation: the set of map iterations in the module's non-test code equals the set declared in the contract files, so a new map iteration is a failed obligation; for each declared site either a mechanical SSA proof (keys only collected then sort.Strings; or the body only writes entries keyed by the iteration key) or an argued invariant listed as an assumption.",
        "note": "Functions under contract, obligation families, known findings and repaired defects for this property: DESIGN.md section 0 (row C12). The property quantifies over all schemas; what is decided are contracts on the functions that carry its boundary-sensitive logic, scenario contracts on arms of the recursive generator and flow/sweep obligations; the composition through the whole generator is argued in DESIGN.md, not machine-checked.",
        "technique": "contract-based deductive verification: sweep + pattern obligations over go/ssa (no solver needed)",
        "design_ref": "DESIGN.md §6 C12",
    },
    "C10": {
        "level": "Proof of the leaf contracts $ref resolution rests on: extractRefNames (both pointer prefixes, any letter case, file part, error for other fragments, panic-free for every text), getDeclByEqualSchema (a reused declaration is one of the name's candidates AND equal to the schema by the comparison used), cmputil.Opts (the comparison ignores only unexported fields, Ref and AnyOf), determineTypeName (type chosen for a referenced definition).",
        "note": "Functions under contract, obligation families, known findings and repaired defects for this property: DESIGN.md section 0 (row C10). The property quantifies over all schemas; what is decided are contracts on the functions that carry its boundary-sensitive logic, scenario contracts on arms of the recursive generator and flow/sweep obligations; the composition through the whole generator is argued in DESIGN.md, not machine-checked.",
        "technique": "contract-based deductive verification: VCs from go/ssa discharged by SMT; table/flow obligations decided on the SSA",
        "design_ref": "DESIGN.md §6 C10",
    },
    "C13": {
        "level": "Proof that #/$defs/ and #/definitions/ (any letter case) are treated alike by extractRefNames, and that the YAML key-fixing loops are order-free (keyed writes).",
        "note": "Functions under contract, obligation families, known findings and repaired defects for this property: DESIGN.md section 0 (row C13). The property quantifies over all schemas; what is decided are contracts on the functions that carry its boundary-sensitive logic, scenario contracts on arms of the recursive generator and flow/sweep obligations; the composition through the whole generator is argued in DESIGN.md, not machine-checked.",
        "technique": "contract-based deductive verification: VCs from go/ssa discharged by SMT; table/flow obligations decided on the SSA",
        "design_ref": "DESIGN.md §6 C13",
    },
    "C16": {
        "level": "Proof on the SSA of main.go that every flag is registered with the documented name, variable, kind and default (plus a sweep: no undeclared flag) and that every generator.Config field is taken from its own flag variable; proof that New builds [json] ++ (ExtraImports ? [yaml] : []), that generateUnmarshaler adds nothing under OnlyModels and exactly the needed imports otherwise, that struct tags depend only on Tags and the property name, and that schema mappings are assembled per id (no state carried across iterations).",
        "note": "Functions under contract, obligation families, known findings and repaired defects for this property: DESIGN.md section 0 (row C16). The property quantifies over all schemas; what is decided are contracts on the functions that carry its boundary-sensitive logic, scenario contracts on arms of the recursive generator and flow/sweep obligations; the composition through the whole generator is argued in DESIGN.md, not machine-checked.",
        "technique": "contract-based deductive verification: VCs from go/ssa discharged by SMT; table/flow obligations decided on the SSA",
        "design_ref": "DESIGN.md §6 C16",
    },
    "C08": {
        "level": "Proof that generateEnumType's carrier type is exactly the Go type of every value in the table it emits (so reflect.DeepEqual can succeed), that mixed/null lists are wrapped, that string enums get their constants, that an empty list is an error wherever the enum sits (generateEnumType, generateTypeInline, generateType arms), that --only-models adds no code, plus the format-string sweep (enum literals are arguments, never formats).",
        "note": "Functions under contract, obligation families, known findings and repaired defects for this property: DESIGN.md section 0 (row C08). The property quantifies over all schemas; what is decided are contracts on the functions that carry its boundary-sensitive logic, scenario contracts on arms of the recursive generator and flow/sweep obligations; the composition through the whole generator is argued in DESIGN.md, not machine-checked.",
        "technique": "contract-based deductive verification: VCs from go/ssa discharged by SMT; flow obligations decided on the SSA",
        "design_ref": "DESIGN.md §0 and §6 C08",
    },
    "C20": {
        "level": "Proof of the routing leaves: beginOutput (reuse only on same file AND same package; same file + other package is an error; otherwise a new output with exactly the requested names registered under the id; both map iteration orders) and findOutputFileForSchemaID (known id keeps its output; mapped id goes to its mapping; else defaults); newSchemaGenerator gives each document its own ref map; data-flow obligations in generateReferencedType; mapping assembly (stringSliceToStringMap, per-id mapping loop).",
        "note": "Functions under contract, obligation families, known findings and repaired defects for this property: DESIGN.md section 0 (row C20). The property quantifies over all schemas; what is decided are contracts on the functions that carry its boundary-sensitive logic, scenario contracts on arms of the recursive generator and flow/sweep obligations; the composition through the whole generator is argued in DESIGN.md, not machine-checked.",
        "technique": "contract-based deductive verification: VCs from go/ssa discharged by SMT; flow obligations decided on the SSA",
        "design_ref": "DESIGN.md §0 and §6 C20",
    },
}

NOT_APPLICABLE = {p: PENDING for p in []}
