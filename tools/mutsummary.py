#!/usr/bin/env python3
"""Summarises a mutation campaign (tools/mutcampaign.py): mutcampaign A/B outputs -> selftest/mutation-survey.json + a table."""
import json, sys, collections, os
A, B, out = sys.argv[1:4]
a = [json.loads(l) for l in open(A)]
b = {r['id']: r for r in (json.loads(l) for l in open(B))}
st = collections.Counter(r['status'] for r in a)
surv = [r for r in a if r['status'] == 'survives']
rows = []
perfile = collections.defaultdict(lambda: [0, 0, 0])
for r in surv:
    x = b.get(r['id'])
    if not x: continue
    det = x['detected']
    only_timeout = bool(det) and all('timeout' in ' '.join(d['obligations']) and 'sat by' not in ' '.join(d['obligations']) for d in det)
    perfile[r['file']][0] += 1
    perfile[r['file']][1] += 1 if det and not only_timeout else 0
    perfile[r['file']][2] += 1 if x['errors'] else 0
    rows.append({'id': r['id'], 'file': r['file'], 'func': r['func'], 'line': r['line'], 'kind': r['kind'], 'old': r['old'][:80], 'new': r['new'][:80],
                 'detected_by': [d['prop'] for d in det], 'first_obligation': (det[0]['obligations'][0] if det and det[0]['obligations'] else ''), 'only_timeout': only_timeout,
                 'ran': x['ran'], 'errors': x['errors']})
summary = {'mutants': len(a), 'status': dict(st), 'survivors_checked': len(rows),
           'survivors_detected': sum(1 for r in rows if r['detected_by'] and not r['only_timeout']),
           'per_file': {f: {'survivors': v[0], 'detected': v[1], 'engine_errors': v[2]} for f, v in sorted(perfile.items())}}
json.dump({'summary': summary, 'survivors': rows}, open(out, 'w'), indent=1)
print(json.dumps(summary, indent=1))
