package main

// Input shape enumeration: pointer-typed inputs are lazily initialised
// (nil / fresh object), interface-typed inputs range over a finite set of
// dynamic kinds, scalars are symbolic. `shape` clauses in the contract override
// the defaults per access path.

import (
	"fmt"
	"go/types"
	"math/big"
	"strconv"
	"strings"

	"golang.org/x/tools/go/ssa"
)

type ShapeCase struct {
	St   *State
	Args []Val
	Env  map[string]Val
	Desc []string
}

type shapeGen struct {
	e       *Exec
	over    map[string][]string // path -> alternatives
	used    map[string]bool
	depth   int
	zeroPfx []string // `option shape-zero <prefix>`: pointers/interfaces/slices/maps under it are nil unless overridden
}

func (g *shapeGen) underZero(path string) bool {
	p := strings.TrimLeft(path, "*")
	for _, z := range g.zeroPfx {
		if strings.HasPrefix(p, z) {
			return true
		}
	}
	return false
}

// alternative builders return, for a given state, the value and a description.
type altFn func(s *State) (Val, string)

func (g *shapeGen) alts(path string, t types.Type, depth int) []altFn {
	if ov, ok := g.over[path]; ok {
		g.used[path] = true
		var out []altFn
		for _, a := range ov {
			out = append(out, g.override(path, t, a, depth)...)
		}
		return out
	}
	if g.underZero(path) {
		switch t.Underlying().(type) {
		case *types.Pointer, *types.Interface, *types.Slice, *types.Map, *types.Signature:
			return []altFn{func(s *State) (Val, string) { return zeroVal(t), "" }}
		}
	}
	switch u := t.Underlying().(type) {
	case *types.Basic:
		switch {
		case u.Info()&types.IsBoolean != 0:
			return []altFn{func(s *State) (Val, string) { return mkVar(path, SBool), "" }}
		case u.Info()&types.IsInteger != 0:
			return []altFn{func(s *State) (Val, string) {
				v := mkVar(path, SInt)
				lo, hi, _ := intRange(t)
				s.assume(mkAnd(mkCmp(">=", v, mkIntBig(lo)), mkCmp("<=", v, mkIntBig(hi))))
				return v, ""
			}}
		case u.Info()&types.IsFloat != 0:
			return []altFn{func(s *State) (Val, string) {
				v := mkVar(path, SReal)
				s.assume(float64Facts(v))
				return v, ""
			}}
		case u.Info()&types.IsString != 0:
			return []altFn{func(s *State) (Val, string) { return atom(path), "" }}
		}
	case *types.Pointer:
		inner := g.alts("*"+path, u.Elem(), depth+1)
		_, isStruct := u.Elem().Underlying().(*types.Struct)
		var out []altFn
		if !isStruct || depth > 0 {
			out = append(out, func(s *State) (Val, string) { return Ref{}, path + "=nil" })
		}
		if depth > 3 {
			return out
		}
		for _, in := range inner {
			in := in
			out = append(out, func(s *State) (Val, string) {
				v, d := in(s)
				r := s.alloc(v)
				delete(s.Fresh, r.Cell)
				s.CellTypes[r.Cell] = u.Elem()
				if d == "" {
					d = path + "=&_"
				}
				return r, d
			})
		}
		return out
	case *types.Interface:
		if u.NumMethods() == 0 { // any
			return []altFn{
				func(s *State) (Val, string) {
					return Iface{Dyn: types.Typ[types.Bool], V: mkVar(path+".bool", SBool)}, path + ":bool"
				},
				func(s *State) (Val, string) {
					v := mkVar(path+".num", SReal)
					s.assume(float64Facts(v))
					return Iface{Dyn: types.Typ[types.Float64], V: v}, path + ":float64"
				},
				func(s *State) (Val, string) {
					return Iface{Dyn: types.Typ[types.String], V: atom(path + ".str")}, path + ":string"
				},
			}
		}
		return []altFn{func(s *State) (Val, string) { return Iface{Dyn: errDynType, V: Opaque{Tag: path, Typ: t}}, "" }}
	case *types.Struct:
		// product over fields
		combos := []func(s *State) ([]Val, []string){func(s *State) ([]Val, []string) { return nil, nil }}
		for i := 0; i < u.NumFields(); i++ {
			f := u.Field(i)
			fp := path + "." + f.Name()
			if strings.HasPrefix(path, "*") {
				fp = strings.TrimPrefix(path, "*") + "." + f.Name()
			}
			fa := g.alts(fp, f.Type(), depth+1)
			var next []func(s *State) ([]Val, []string)
			for _, c := range combos {
				for _, a := range fa {
					c, a := c, a
					next = append(next, func(s *State) ([]Val, []string) {
						vs, ds := c(s)
						v, d := a(s)
						if d != "" {
							ds = append(append([]string{}, ds...), d)
						}
						return append(append([]Val{}, vs...), v), ds
					})
				}
			}
			combos = next
			if len(combos) > 20000 {
				unsupported("shape explosion at %s", path)
			}
		}
		var out []altFn
		for _, c := range combos {
			c := c
			out = append(out, func(s *State) (Val, string) {
				vs, ds := c(s)
				return &Agg{Elems: vs, Typ: t}, strings.Join(ds, " ")
			})
		}
		return out
	case *types.Signature:
		return []altFn{func(s *State) (Val, string) { return Opaque{Tag: path, Typ: t}, "" }}
	case *types.Slice:
		return []altFn{func(s *State) (Val, string) { return Opaque{Tag: path, Typ: t}, "" }}
	case *types.Map:
		return []altFn{func(s *State) (Val, string) { return Opaque{Tag: path, Typ: t}, "" }}
	}
	return []altFn{func(s *State) (Val, string) { return Opaque{Tag: path, Typ: t}, "" }}
}

func (g *shapeGen) override(path string, t types.Type, a string, depth int) []altFn {
	a = strings.TrimSpace(a)
	switch {
	case a == "nil":
		return []altFn{func(s *State) (Val, string) { return zeroVal(t), path + "=nil" }}
	case a == "new":
		p, ok := t.Underlying().(*types.Pointer)
		if !ok {
			unsupported("shape %s = new on non-pointer", path)
		}
		var out []altFn
		for _, in := range g.alts("*"+path, p.Elem(), depth+1) {
			in := in
			out = append(out, func(s *State) (Val, string) {
				v, d := in(s)
				r := s.alloc(v)
				delete(s.Fresh, r.Cell)
				s.CellTypes[r.Cell] = p.Elem()
				return r, d
			})
		}
		return out
	case a == "anybool" || a == "anyfloat" || a == "anystring":
		return []altFn{func(s *State) (Val, string) {
			switch a {
			case "anybool":
				return Iface{Dyn: types.Typ[types.Bool], V: mkVar(path+".bool", SBool)}, path + ":bool"
			case "anyfloat":
				v := mkVar(path+".num", SReal)
				s.assume(float64Facts(v))
				return Iface{Dyn: types.Typ[types.Float64], V: v}, path + ":float64"
			}
			return Iface{Dyn: types.Typ[types.String], V: atom(path + ".str")}, path + ":string"
		}}
	case a == "sym":
		saved := g.over[path]
		delete(g.over, path)
		out := g.alts(path, t, depth)
		g.over[path] = saved
		return out
	case strings.HasPrefix(a, `"`):
		sv, err := strconv.Unquote(a)
		if err != nil {
			unsupported("bad shape literal %s", a)
		}
		return []altFn{func(s *State) (Val, string) { return lit(sv), path + "=" + a }}
	case a == "true" || a == "false":
		return []altFn{func(s *State) (Val, string) { return mkBool(a == "true"), path + "=" + a }}
	default:
		if n, err := strconv.ParseInt(a, 10, 64); err == nil {
			return []altFn{func(s *State) (Val, string) { return mkInt(n), path + "=" + a }}
		}
	}
	if af, ok := g.e.customShape(path, t, a); ok {
		return af
	}
	unsupported("unknown shape alternative %q for %s", a, path)
	return nil
}

// genShapes enumerates the input shapes of fn under its contract.
func (e *Exec) genShapes(fn *ssa.Function, con *Contract) []*ShapeCase {
	g := &shapeGen{e: e, over: map[string][]string{}, used: map[string]bool{}}
	e.curGen = g
	for _, cl := range con.Clauses {
		if cl.Kind == "option" && strings.HasPrefix(cl.Raw, "shape-zero ") {
			g.zeroPfx = append(g.zeroPfx, strings.Fields(cl.Raw)[1:]...)
		}
	}
	for _, sc := range con.clauses("shape") {
		eq := strings.Index(sc.Raw, "=")
		if eq < 0 {
			unsupported("%s: shape PATH = ALT | ALT", sc.Pos)
		}
		path := strings.TrimSpace(sc.Raw[:eq])
		if strings.HasPrefix(path, "result") {
			continue // result shapes: used at call sites, proved in verify.go
		}
		if strings.HasPrefix(path, "prop.") || path == "prop" {
			g.used[path] = true // consumed by propmap()
		}
		for _, a := range strings.Split(sc.Raw[eq+1:], "|") {
			g.over[path] = append(g.over[path], strings.TrimSpace(a))
		}
	}
	type partial struct {
		build []altFn
	}
	combos := [][]altFn{nil}
	for _, p := range fn.Params {
		as := g.alts(p.Name(), p.Type(), 0)
		var next [][]altFn
		for _, c := range combos {
			for _, a := range as {
				next = append(next, append(append([]altFn{}, c...), a))
			}
		}
		combos = next
		if len(combos) > 50000 {
			unsupported("shape explosion in %s", fn.Name())
		}
	}
	for path := range g.over {
		if !g.used[path] {
			unsupported("shape clause for unknown path %q in %s", path, con.Func)
		}
	}
	var out []*ShapeCase
	for _, c := range combos {
		st := newState()
		sc := &ShapeCase{St: st, Env: map[string]Val{}}
		for i, a := range c {
			v, d := a(st)
			sc.Args = append(sc.Args, v)
			sc.Env[fn.Params[i].Name()] = v
			if d != "" {
				sc.Desc = append(sc.Desc, d)
			}
		}
		out = append(out, sc)
	}
	return out
}

func (e *Exec) customShape(path string, t types.Type, a string) ([]altFn, bool) {
	_ = fmt.Sprint
	switch a {
	case "emitter":
		// a fresh *codegen.Emitter as NewEmitter(80) makes it, at indentation 1
		p, ok := t.Underlying().(*types.Pointer)
		if !ok {
			unsupported("shape emitter on non-pointer %s", path)
		}
		return []altFn{func(s *State) (Val, string) {
			em := zeroVal(p.Elem()).(*Agg)
			set := func(name string, v Val) {
				i := structFieldIndex(em.Typ, name)
				if i < 0 {
					unsupported("Emitter has no field %s", name)
				}
				em = em.with(i, v)
			}
			set("maxLineLength", mkInt(80))
			set("start", tTrue)
			set("indent", mkInt(1))
			r := s.alloc(em)
			delete(s.Fresh, r.Cell)
			s.CellTypes[r.Cell] = p.Elem()
			return r, ""
		}}, true
	}
	return e.scenarioShape(path, t, a)
}

// float64Facts: true facts about every finite float64 that the real-number
// model needs: above 2^53 all values are integers, and in [2^53, 2^54) they are
// even. (The reals admitted remain a superset of the float64 values.)
var float64FactsOn bool

func float64Facts(v *T) *T {
	zero := mkReal(ratInt(0))
	abs := mkIte(mkCmp(">=", v, zero), v, mkArith("-", zero, v))
	p := func(k int) *T { return mkReal(new(big.Rat).SetInt(pow2(k))) }
	k := mkVar("intof!"+v.Name, SInt)
	mult := func(m int64) *T { return mkEq(&T{Op: "mod", Args: []*T{k, mkInt(m)}, Sort: SInt}, mkInt(0)) }
	if !float64FactsOn {
		return tTrue
	}
	return mkAnd(
		mkImplies(mkCmp(">=", abs, p(53)), mkEq(toReal(k), v)),
		mkImplies(mkCmp(">=", abs, p(62)), mult(1024)), // ulp in [2^62, 2^63) is 2^10
		mkImplies(mkCmp(">=", abs, p(63)), mult(2048)),
		mkImplies(mkCmp(">=", abs, p(64)), mult(4096)),
	)
}
