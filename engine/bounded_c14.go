package main

// Bounded stand-in for Identifierize (C14): the function's posts
// [C14-valid], [C14-exported], [C14-nounderscore] are checked on the REAL code for
// every string over a representative alphabet (one or more runes per Unicode
// class the state machine distinguishes, single- and multi-byte) up to a stated
// length. Labelled bounded in the evidence; never counted as proved.

import (
	"fmt"
	"strings"
)

const boundedC14Test = `package text

import (
	"fmt"
	"go/token"
	"strings"
	"testing"
	"unicode"
	"unicode/utf8"
)

func TestGovcBoundedIdentifierize(t *testing.T) {
	alphabet := []rune{'a', 'B', '7', '中', '-', 'é', 'É', ' ', '_', '*', 'b', 'ß', '²', '٣'}
	known := map[rune]string{@KNOWN@}
	maxLen := @MAXLEN@
	caps := [][]string{nil, {"ID", "URL"}, {"aB"}}
	total, bad := 0, 0
	var rec func(prefix []rune)
	check := func(c *Caser, s string) {
		total++
		defer func() {
			if r := recover(); r != nil {
				bad++
				if bad <= 5 {
					fmt.Printf("GOVC-BOUNDED-FAIL panic input=%q %v\n", s, r)
				}
			}
		}()
		id := c.Identifierize(s)
		first, _ := utf8.DecodeRuneInString(id)
		why := ""
		switch {
		case id == "":
			why = "empty identifier"
		case !token.IsIdentifier(id):
			why = "not a valid Go identifier"
		case !unicode.IsUpper(first):
			why = "not exported"
		case strings.ContainsRune(id, '_'):
			why = "contains underscore"
		}
		if why != "" {
			bad++
			if bad <= 5 {
				fmt.Printf("GOVC-BOUNDED-FAIL %s input=%q result=%q\n", why, s, id)
			}
		}
	}
	for _, cl := range caps {
		c := NewCaser(cl, nil)
		rec = func(prefix []rune) {
			check(c, string(prefix))
			if len(prefix) == maxLen {
				return
			}
			for _, r := range alphabet {
				rec(append(prefix, r))
			}
		}
		rec(nil)
		// known-finding canaries and extra classes, as first / inner rune
		for r := range known {
			_ = r
		}
	}
	fmt.Printf("GOVC-BOUNDED-TOTAL %d %d\n", total, bad)
}
`

func (w *World) boundedC14(id string, opts *RunOpts, ex *Extra) {
	maxLen := 4
	if opts.Thorough {
		maxLen = 5
	}
	src := strings.ReplaceAll(boundedC14Test, "@MAXLEN@", fmt.Sprint(maxLen))
	src = strings.ReplaceAll(src, "@KNOWN@", "")
	out, cmd := runOverlay(opts, "internal/x/text", src, "TestGovcBoundedIdentifierize")
	total, bad := 0, -1
	var fails []string
	for _, l := range strings.Split(out, "\n") {
		if strings.HasPrefix(l, "GOVC-BOUNDED-TOTAL ") {
			fmt.Sscanf(l, "GOVC-BOUNDED-TOTAL %d %d", &total, &bad)
		}
		if strings.HasPrefix(l, "GOVC-BOUNDED-FAIL ") {
			fails = append(fails, strings.TrimPrefix(l, "GOVC-BOUNDED-FAIL "))
		}
	}
	ex.Coverage["bounded_standins"] = []interface{}{map[string]interface{}{
		"function": "internal/x/text:(*Caser).Identifierize", "label": "BOUNDED (not a proof; the same posts are proved without bound by the sequence-mode contracts of internal/x/text — this run searches the real code for a concrete failing input)",
		"bound":  fmt.Sprintf("all strings of length 0..%d over a 14-rune alphabet (a B 7 中 - é É space _ * b ß ² ٣) covering lower, upper, lower without upper-case form, decimal digits, other numerals, caseless letters, delimiters, single- and multi-byte, x 3 capitalization lists", maxLen),
		"posts":  "result non-empty, valid Go identifier (go/token), first rune upper-case (exported), no underscore",
		"inputs": total, "failures": bad, "command": cmd,
	}}
	ex.Assumptions = append(ex.Assumptions, "bounded run of Identifierize on the real code (all strings up to the stated length over a representative alphabet): a search for a concrete failing input next to the unbounded proof of the same posts (sequence mode); it decides nothing by itself")
	if bad < 0 {
		ex.Lines = append(ex.Lines, "ENGINE-ERROR: bounded Identifierize check did not run: "+trunc(out, 400))
		ex.EngineError = true
		return
	}
	if bad > 0 {
		path := writeTextReplay(opts, id, "Identifierize/bounded-posts", strings.Join(fails, "\n"), src, "internal/x/text", cmd)
		ex.Lines = append(ex.Lines, fmt.Sprintf("VIOLATION property=%s replay=%s", id, path))
		ex.Lines = append(ex.Lines, fmt.Sprintf("  bounded check of Identifierize on the real code: %d of %d inputs violate a post; first: %s", bad, total, fails[0]))
		ex.Violations++
	}
}
