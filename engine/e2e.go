package main

// End-to-end replay: schema + documents through the REAL generator of /repo's
// current tree (via /verif/e2e, rebuilt on every run), the emitted code compiled
// and run in a scratch module outside /repo and /verif.

import (
	"bytes"
	"context"
	"encoding/json"
	"fmt"
	"os"
	"os/exec"
	"path/filepath"
	"strings"
	"sync"
	"time"
)

type E2EDoc struct {
	Doc    string `json:"doc"`
	Format string `json:"format,omitempty"` // json (default) | yaml
	Expect string `json:"expect"`           // accept | reject : what the property demands
	Note   string `json:"note,omitempty"`
}

type E2ECase struct {
	Name         string            `json:"name"`
	Schemas      map[string]string `json:"schemas"`
	Entries      []string          `json:"entries"`
	Type         string            `json:"type"` // Go type to decode into
	ExtraImports bool              `json:"extra_imports,omitempty"`
	MinSizedInts bool              `json:"min_sized_ints,omitempty"`
	OnlyModels   bool              `json:"only_models,omitempty"`
	Tags         []string          `json:"tags,omitempty"`
	Caps         []string          `json:"capitalizations,omitempty"`
	Docs         []E2EDoc          `json:"docs"`
	ExpectGen    string            `json:"expect_generator,omitempty"`    // "" | "error" | "compiles"
	GenTimeoutS  int               `json:"generator_timeout_s,omitempty"` // default 60
}

type E2EVerdict struct {
	Verdict string `json:"verdict"` // accept reject panic crash
	Err     string `json:"err,omitempty"`
	Value   string `json:"value,omitempty"`
}

type E2EResult struct {
	GenError     string
	GenPanic     string
	Warnings     []string
	Files        map[string]string
	CompileError string
	Verdicts     []E2EVerdict
	Log          string
	Seconds      float64
}

var e2eBuildOnce sync.Once
var e2eBuildErr error

func goEnvNoWork() []string {
	var env []string
	for _, kv := range os.Environ() {
		if strings.HasPrefix(kv, "GOFLAGS=") || strings.HasPrefix(kv, "GOWORK=") {
			continue
		}
		env = append(env, kv)
	}
	return append(env, "GOWORK=off", "GOFLAGS=-mod=mod", "GOPROXY=off", "GOSUMDB=off", "GOTOOLCHAIN=local")
}

var e2eGenPath string

func buildE2EGen(opts *RunOpts) error {
	e2eBuildOnce.Do(func() {
		dir := filepath.Join(opts.Verif, "e2e")
		sum, err := os.ReadFile(filepath.Join(opts.Repo, "go.sum"))
		if err == nil {
			os.WriteFile(filepath.Join(dir, "go.sum"), sum, 0o644)
		}
		// the replace directive must point at the repo under test
		mod, err := os.ReadFile(filepath.Join(dir, "go.mod"))
		if err != nil {
			e2eBuildErr = err
			return
		}
		lines := strings.Split(string(mod), "\n")
		for i, l := range lines {
			if strings.HasPrefix(l, "replace github.com/atombender/go-jsonschema =>") {
				lines[i] = "replace github.com/atombender/go-jsonschema => " + opts.Repo
			}
		}
		os.WriteFile(filepath.Join(dir, "go.mod"), []byte(strings.Join(lines, "\n")), 0o644)
		os.MkdirAll(filepath.Join(opts.Verif, "bin"), 0o755)
		// one binary per process: checks may run side by side
		e2eGenPath = filepath.Join(opts.Verif, "bin", fmt.Sprintf("e2egen-%d", os.Getpid()))
		cmd := exec.Command("go", "build", "-o", e2eGenPath, ".")
		cmd.Dir = dir
		cmd.Env = goEnvNoWork()
		out, err := cmd.CombinedOutput()
		if err != nil {
			e2eBuildErr = fmt.Errorf("building e2egen from %s failed: %v\n%s", opts.Repo, err, out)
		}
	})
	return e2eBuildErr
}

const runnerMain = `package main

import (
	"encoding/json"
	"fmt"
	"os"

	gen "e2erun/gen"
	@YAMLIMPORT@
)

type doc struct {
	Doc    string ` + "`json:\"doc\"`" + `
	Format string ` + "`json:\"format\"`" + `
}

type verdict struct {
	Verdict string ` + "`json:\"verdict\"`" + `
	Err     string ` + "`json:\"err,omitempty\"`" + `
	Value   string ` + "`json:\"value,omitempty\"`" + `
}

func one(d doc) (v verdict) {
	defer func() {
		if r := recover(); r != nil {
			v = verdict{Verdict: "panic", Err: fmt.Sprint(r)}
		}
	}()
	var x gen.@TYPE@
	var err error
	if d.Format == "yaml" {
		@YAMLDECODE@
	} else {
		err = json.Unmarshal([]byte(d.Doc), &x)
	}
	if err != nil {
		return verdict{Verdict: "reject", Err: err.Error()}
	}
	b, _ := json.Marshal(x)
	return verdict{Verdict: "accept", Value: string(b)}
}

func main() {
	var docs []doc
	data, _ := os.ReadFile("docs.json")
	json.Unmarshal(data, &docs)
	for _, d := range docs {
		b, _ := json.Marshal(one(d))
		fmt.Println("E2E-VERDICT " + string(b))
	}
}
`

func runE2E(opts *RunOpts, c *E2ECase) (*E2EResult, error) {
	start := time.Now()
	if err := buildE2EGen(opts); err != nil {
		return nil, err
	}
	dir, err := os.MkdirTemp("", "govc-e2e-")
	if err != nil {
		return nil, err
	}
	defer os.RemoveAll(dir)
	res := &E2EResult{}
	job := map[string]interface{}{
		"dir": filepath.Join(dir, "schemas"), "schemas": c.Schemas, "entries": c.Entries, "package": "gen",
		"extra_imports": c.ExtraImports, "min_sized_ints": c.MinSizedInts, "only_models": c.OnlyModels,
	}
	if c.Tags != nil {
		job["tags"] = c.Tags
	}
	if c.Caps != nil {
		job["capitalizations"] = c.Caps
	}
	jb, _ := json.Marshal(job)
	genTimeout := 60 * time.Second
	if c.GenTimeoutS > 0 {
		genTimeout = time.Duration(c.GenTimeoutS) * time.Second
	}
	ctx, cancel := context.WithTimeout(context.Background(), genTimeout)
	defer cancel()
	gcmd := exec.CommandContext(ctx, e2eGenPath)
	gcmd.Stdin = bytes.NewReader(jb)
	var gout, gerr bytes.Buffer
	gcmd.Stdout, gcmd.Stderr = &gout, &gerr
	runErr := gcmd.Run()
	var gr struct {
		Files    map[string]string `json:"files"`
		Warnings []string          `json:"warnings"`
		Error    string            `json:"error"`
		Panic    string            `json:"panic"`
	}
	if ctx.Err() == context.DeadlineExceeded {
		res.GenPanic = fmt.Sprintf("the generator did not terminate within %v", genTimeout)
		res.Seconds = time.Since(start).Seconds()
		return res, nil
	}
	if jerr := json.Unmarshal(gout.Bytes(), &gr); jerr != nil {
		res.GenPanic = fmt.Sprintf("generator process failed: %v %s %s", runErr, trunc(gerr.String(), 400), trunc(gout.String(), 200))
		res.Seconds = time.Since(start).Seconds()
		return res, nil
	}
	res.GenError, res.GenPanic, res.Warnings, res.Files = gr.Error, gr.Panic, gr.Warnings, gr.Files
	if gr.Error != "" || gr.Panic != "" || c.Type == "" {
		res.Seconds = time.Since(start).Seconds()
		return res, nil
	}
	src, ok := gr.Files["-"]
	if !ok {
		for _, s := range gr.Files {
			src = s
		}
	}
	mod := filepath.Join(dir, "run")
	os.MkdirAll(filepath.Join(mod, "gen"), 0o755)
	os.WriteFile(filepath.Join(mod, "gen", "gen.go"), []byte(src), 0o644)
	gomod := "module e2erun\n\ngo 1.23.0\n\nrequire (\n\tgithub.com/atombender/go-jsonschema v0.0.0\n\tgithub.com/go-viper/mapstructure/v2 v2.1.0\n\tgopkg.in/yaml.v3 v3.0.1\n)\n\nreplace github.com/atombender/go-jsonschema => " + opts.Repo + "\n"
	os.WriteFile(filepath.Join(mod, "go.mod"), []byte(gomod), 0o644)
	s1, _ := os.ReadFile(filepath.Join(opts.Repo, "go.sum"))
	s2, _ := os.ReadFile(filepath.Join(opts.Repo, "tests", "go.sum"))
	os.WriteFile(filepath.Join(mod, "go.sum"), append(append(s1, '\n'), s2...), 0o644)
	main := strings.ReplaceAll(runnerMain, "@TYPE@", c.Type)
	if c.ExtraImports {
		main = strings.ReplaceAll(main, "@YAMLIMPORT@", `yaml "gopkg.in/yaml.v3"`)
		main = strings.ReplaceAll(main, "@YAMLDECODE@", "err = yaml.Unmarshal([]byte(d.Doc), &x)")
	} else {
		main = strings.ReplaceAll(main, "@YAMLIMPORT@", "")
		main = strings.ReplaceAll(main, "@YAMLDECODE@", `err = fmt.Errorf("yaml not generated")`)
	}
	os.WriteFile(filepath.Join(mod, "main.go"), []byte(main), 0o644)
	type dd struct {
		Doc    string `json:"doc"`
		Format string `json:"format"`
	}
	var docs []dd
	for _, d := range c.Docs {
		docs = append(docs, dd{d.Doc, d.Format})
	}
	db, _ := json.Marshal(docs)
	os.WriteFile(filepath.Join(mod, "docs.json"), db, 0o644)
	ctx2, cancel2 := context.WithTimeout(context.Background(), 180*time.Second)
	defer cancel2()
	bcmd := exec.CommandContext(ctx2, "go", "build", "-o", "runner", ".")
	bcmd.Dir = mod
	bcmd.Env = goEnvNoWork()
	if out, err := bcmd.CombinedOutput(); err != nil {
		res.CompileError = string(out)
		res.Seconds = time.Since(start).Seconds()
		return res, nil
	}
	rcmd := exec.CommandContext(ctx2, filepath.Join(mod, "runner"))
	rcmd.Dir = mod
	out, _ := rcmd.CombinedOutput()
	res.Log = string(out)
	for _, l := range strings.Split(string(out), "\n") {
		if strings.HasPrefix(l, "E2E-VERDICT ") {
			var v E2EVerdict
			if json.Unmarshal([]byte(strings.TrimPrefix(l, "E2E-VERDICT ")), &v) == nil {
				res.Verdicts = append(res.Verdicts, v)
			}
		}
	}
	for len(res.Verdicts) < len(c.Docs) {
		res.Verdicts = append(res.Verdicts, E2EVerdict{Verdict: "crash", Err: trunc(string(out), 400)})
	}
	res.Seconds = time.Since(start).Seconds()
	return res, nil
}

// violations lists the documents whose observed verdict differs from what the
// property demands.
func (c *E2ECase) violations(r *E2EResult) []string {
	var out []string
	if r.GenPanic != "" {
		if strings.HasPrefix(r.GenPanic, "the generator did not terminate") {
			return []string{r.GenPanic}
		}
		return []string{"generator panicked: " + trunc(r.GenPanic, 300)}
	}
	if c.ExpectGen == "error" {
		if r.GenError == "" {
			return []string{"generator succeeded where the property demands a failure"}
		}
		return nil
	}
	if r.GenError != "" {
		return []string{"generator failed: " + r.GenError}
	}
	if r.CompileError != "" {
		return []string{"emitted code does not compile: " + trunc(r.CompileError, 600)}
	}
	for i, d := range c.Docs {
		if i >= len(r.Verdicts) {
			break
		}
		v := r.Verdicts[i]
		if v.Verdict != d.Expect {
			out = append(out, fmt.Sprintf("doc %s (%s): property demands %s, generated code: %s %s", d.Doc, d.Note, d.Expect, v.Verdict, trunc(v.Err, 160)))
		}
	}
	return out
}

func loadE2ECase(path string) (*E2ECase, error) {
	data, err := os.ReadFile(path)
	if err != nil {
		return nil, err
	}
	var c E2ECase
	if err := json.Unmarshal(data, &c); err != nil {
		return nil, fmt.Errorf("%s: %w", path, err)
	}
	return &c, nil
}
