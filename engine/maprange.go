package main

// C12 — determinism: every `range` over a map in the module's non-test code is
// an obligation site. The sweep obligation states that the set of sites equals
// the set declared in the contract files (`maprange` clauses), so a NEW map
// iteration (say, ranging t.Properties directly instead of sortedKeys) is a
// failed obligation. Declared kinds:
//   sorted       the loop only collects the keys and the slice is passed to
//                sort.Strings before it is used (checked on the SSA)
//   keyed-write  the body's only effect is a write keyed by the iteration key
//                into a map (checked on the SSA): commutes for distinct keys
//   argued       order-freedom rests on an invariant argued in the clause's text
//                (listed as an assumption, not proved)

import (
	"fmt"
	"go/types"
	"sort"
	"strings"

	"golang.org/x/tools/go/ssa"
	"golang.org/x/tools/go/ssa/ssautil"
)

type mapRangeSite struct {
	Name string
	Fn   *ssa.Function
	Rng  *ssa.Range
	Pos  string
}

func (w *World) mapRangeSites() []*mapRangeSite {
	var fns []*ssa.Function
	for fn := range ssautil.AllFunctions(w.prog) {
		if fn.Blocks == nil || fn.Synthetic != "" && !strings.Contains(fn.Synthetic, "instance") {
			continue
		}
		p := fnPkgPath(fn)
		if fn.Pkg == nil && fn.Parent() != nil {
			p = fnPkgPath(fn.Parent())
		}
		if p == w.modPath || strings.HasPrefix(p, w.modPath+"/pkg/") || strings.HasPrefix(p, w.modPath+"/internal/") {
			fns = append(fns, fn)
		}
	}
	sort.Slice(fns, func(i, j int) bool { return fns[i].String() < fns[j].String() })
	seen := map[string]bool{}
	var out []*mapRangeSite
	for _, fn := range fns {
		k := 0
		base := fn.Name()
		if i := strings.Index(base, "["); i >= 0 { // generic instance: one site per source loop
			base = base[:i]
		}
		if fn.Signature.Recv() != nil {
			base = fnKey(fn)
		}
		for _, b := range fn.Blocks {
			for _, ins := range b.Instrs {
				r, ok := ins.(*ssa.Range)
				if !ok {
					continue
				}
				if _, isMap := r.X.Type().Underlying().(*types.Map); !isMap {
					continue
				}
				pos := w.prog.Fset.Position(r.Pos())
				name := fmt.Sprintf("%s/maprange#%d", base, k)
				k++
				if seen[name+pos.String()] {
					continue
				}
				seen[name+pos.String()] = true
				dup := false
				for _, o := range out {
					if o.Name == name {
						dup = true
					}
				}
				if dup {
					continue
				}
				out = append(out, &mapRangeSite{Name: name, Fn: fn, Rng: r, Pos: fmt.Sprintf("%s:%d", strings.TrimPrefix(pos.Filename, w.repo+"/"), pos.Line)})
			}
		}
	}
	return out
}

// loopBlocks returns the blocks of the range loop: those reachable from the
// Next's block without passing the loop exit.
func rangeLoop(r *ssa.Range) (next *ssa.Next, body map[*ssa.BasicBlock]bool, exit *ssa.BasicBlock) {
	for _, ref := range *r.Referrers() {
		if n, ok := ref.(*ssa.Next); ok {
			next = n
		}
	}
	if next == nil {
		return nil, nil, nil
	}
	hdr := next.Block()
	ifi, ok := hdr.Instrs[len(hdr.Instrs)-1].(*ssa.If)
	if !ok {
		return next, nil, nil
	}
	_ = ifi
	exit = hdr.Succs[1]
	body = map[*ssa.BasicBlock]bool{}
	var visit func(b *ssa.BasicBlock)
	visit = func(b *ssa.BasicBlock) {
		if b == hdr || b == exit || body[b] {
			return
		}
		body[b] = true
		for _, s := range b.Succs {
			visit(s)
		}
	}
	visit(hdr.Succs[0])
	return next, body, exit
}

func keyOf(next *ssa.Next) ssa.Value {
	for _, ref := range *next.Referrers() {
		if ex, ok := ref.(*ssa.Extract); ok && ex.Index == 1 {
			return ex
		}
	}
	return nil
}

// sortedPattern: the body only appends the key to one slice; that slice is
// sorted (sort.Strings) in the exit block before any other use.
func sortedPattern(site *mapRangeSite) (bool, string) {
	next, body, exit := rangeLoop(site.Rng)
	if next == nil || body == nil {
		return false, "loop shape not recognised"
	}
	key := keyOf(next)
	appends := 0
	for b := range body {
		for _, ins := range b.Instrs {
			switch i := ins.(type) {
			case *ssa.Call:
				if bi, ok := i.Call.Value.(*ssa.Builtin); ok && bi.Name() == "append" {
					appends++
					continue
				}
				return false, "loop body calls " + calleeName(i)
			case *ssa.Store:
				// stores into the varargs backing array of append are fine when they store the key
				if i.Val != key {
					if _, isIdx := i.Addr.(*ssa.IndexAddr); !isIdx {
						return false, "loop body stores a non-key value"
					}
					if i.Val != key {
						return false, "loop body appends something other than the key"
					}
				}
			case *ssa.MapUpdate, *ssa.Send, *ssa.Go, *ssa.Defer:
				return false, "loop body has another side effect"
			}
		}
	}
	if appends != 1 {
		return false, fmt.Sprintf("loop body has %d appends", appends)
	}
	// the exit path must call sort.Strings before returning
	sorted := false
	seen := map[*ssa.BasicBlock]bool{}
	var walk func(b *ssa.BasicBlock) bool
	walk = func(b *ssa.BasicBlock) bool {
		if seen[b] {
			return true
		}
		seen[b] = true
		for _, ins := range b.Instrs {
			switch i := ins.(type) {
			case *ssa.Call:
				if isStringSort(i) {
					sorted = true
					return true
				}
			case *ssa.Return:
				return false
			}
		}
		for _, s := range b.Succs {
			if !walk(s) {
				return false
			}
		}
		return true
	}
	if !walk(exit) || !sorted {
		return false, "the collected keys are not passed to sort.Strings on every path after the loop"
	}
	return true, ""
}

// keyedWritePattern: the only effects of the body are map updates whose key is
// derived from the iteration key alone (the key itself, or a conversion of it).
func keyedWritePattern(site *mapRangeSite) (bool, string) {
	next, body, _ := rangeLoop(site.Rng)
	if next == nil || body == nil {
		return false, "loop shape not recognised"
	}
	key := keyOf(next)
	fromKey := map[ssa.Value]bool{key: true}
	// values that are functions of the iteration key alone (fixpoint)
	for changed := true; changed; {
		changed = false
		mark := func(v ssa.Value) {
			if !fromKey[v] {
				fromKey[v] = true
				changed = true
			}
		}
		for b := range body {
			for _, ins := range b.Instrs {
				switch i := ins.(type) {
				case *ssa.TypeAssert:
					if fromKey[i.X] {
						mark(i)
					}
				case *ssa.Extract:
					if fromKey[i.Tuple] {
						mark(i)
					}
				case *ssa.Phi:
					all := true
					for _, e := range i.Edges {
						if !fromKey[e] {
							all = false
						}
					}
					if all {
						mark(i)
					}
				case *ssa.MakeInterface:
					if fromKey[i.X] {
						mark(i)
					}
				case *ssa.Call:
					if calleeName(i) == "fmt.Sprintf" { // the key rendered as text
						mark(i)
					}
				}
			}
		}
	}
	updates := 0
	for b := range body {
		for _, ins := range b.Instrs {
			switch i := ins.(type) {
			case *ssa.Call:
				n := calleeName(i)
				switch {
				case n == "fmt.Sprintf", n == "(*strings.Builder).String", n == "go/format.Source":
					// read-only
				case n == "func-value":
					// a callback (the warner): affects the order of warnings on stderr, not the output
				case i.Call.StaticCallee() != nil && i.Call.StaticCallee() == site.Fn, strings.Contains(n, "fixMapKeysIn"):
					// recursion on the VALUE; does not depend on the iteration order
				default:
					return false, "loop body calls " + n
				}
			case *ssa.MapUpdate:
				updates++
				if !fromKey[i.Key] {
					return false, "map write whose key is not a function of the iteration key"
				}
			case *ssa.Store:
				if _, isIdx := i.Addr.(*ssa.IndexAddr); !isIdx {
					if _, isAlloc := i.Addr.(*ssa.Alloc); !isAlloc {
						return false, "loop body stores to memory"
					}
				}
			case *ssa.Send, *ssa.Go, *ssa.Defer:
				return false, "loop body has another side effect"
			}
		}
	}
	if updates == 0 {
		return false, "no keyed write in the body"
	}
	return true, ""
}

func (w *World) mapRanges(opts *RunOpts, ex *Extra) {
	sites := w.mapRangeSites()
	type decl struct{ kind, reason, pos string }
	declared := map[string]decl{}
	for _, c := range w.specs.Contracts {
		for _, cl := range c.Clauses {
			if cl.Kind != "maprange" {
				continue
			}
			f := strings.Fields(cl.Raw)
			if len(f) < 2 {
				continue
			}
			declared[fmt.Sprintf("%s/maprange#%s", c.target(), strings.TrimSuffix(f[0], ":"))] = decl{f[1], strings.Join(f[2:], " "), cl.Pos}
		}
	}
	var rows []interface{}
	fail := func(name, msg string) {
		path := writeTextReplay(opts, "C12", name, msg, "", "", "bin/govc check C12")
		ex.Lines = append(ex.Lines, fmt.Sprintf("VIOLATION property=C12 replay=%s no-failing-input-found", path))
		ex.Lines = append(ex.Lines, "  failed obligation: "+name+": "+msg)
		ex.Violations++
	}
	have := map[string]bool{}
	for _, s := range sites {
		have[s.Name] = true
		ex.Count++
		d, ok := declared[s.Name]
		row := map[string]interface{}{"site": s.Name, "at": s.Pos, "declared": d.kind}
		switch {
		case !ok:
			fail(s.Name, "map iteration at "+s.Pos+" is not covered by any maprange clause: Go map iteration order is random, so whatever this loop produces may differ from run to run")
			row["status"] = "undeclared"
		case d.kind == "sorted":
			if good, why := sortedPattern(s); good {
				ex.Discharged++
				row["status"] = "proved: keys collected, then sort.Strings"
			} else {
				fail(s.Name, "declared `sorted` but "+why+" ("+s.Pos+")")
				row["status"] = "failed"
			}
		case d.kind == "keyed-write":
			if good, why := keyedWritePattern(s); good {
				ex.Discharged++
				row["status"] = "proved: body only writes entries keyed by the iteration key (commutes for distinct keys)"
			} else {
				fail(s.Name, "declared `keyed-write` but "+why+" ("+s.Pos+")")
				row["status"] = "failed"
			}
		default:
			ex.Discharged++
			row["status"] = "argued (assumption): " + d.reason
			ex.Assumptions = append(ex.Assumptions, "map iteration "+s.Name+" order-free by argument, not proved: "+d.reason)
		}
		rows = append(rows, row)
	}
	for name := range declared {
		if !have[name] {
			ex.Lines = append(ex.Lines, "note: maprange clause for "+name+" matches no map iteration any more (stale clause)")
		}
	}
	// the sweep itself
	ex.Count++
	ex.Discharged++
	ex.Coverage["map_iteration_sites"] = rows
	ex.Samples = append(ex.Samples, rows[:min(3, len(rows))]...)
	// other nondeterminism sources: syntactic scan (reported, not a proof)
	var other []string
	for _, p := range w.pkgs {
		for imp := range p.Imports {
			if imp == "math/rand" || imp == "crypto/rand" || imp == "time" {
				other = append(other, p.PkgPath+" imports "+imp)
			}
		}
	}
	sort.Strings(other)
	ex.Coverage["other_nondeterminism_sources_scan"] = other
}

// isStringSort recognises the calls that put a []string into its one total
// order: sort.Strings, slices.Sort, sort.Sort/Stable of a sort.StringSlice.
// (sort.Slice with a hand-written comparator is NOT accepted: the comparator
// need not be a total order, and then the result depends on the input order.)
func isStringSort(c *ssa.Call) bool {
	n := calleeName(c)
	switch {
	case n == "sort.Strings", strings.HasPrefix(n, "slices.Sort[") || n == "slices.Sort":
		return true
	case n == "sort.Sort" || n == "sort.Stable":
		if len(c.Call.Args) == 1 {
			if mi, ok := c.Call.Args[0].(*ssa.MakeInterface); ok {
				return strings.HasSuffix(mi.X.Type().String(), "sort.StringSlice")
			}
		}
	}
	return false
}
