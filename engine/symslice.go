package main

// Symbolic-length slices (used for the rune arrays of internal/x/text).

import (
	"golang.org/x/tools/go/ssa"
)

type SymSlice struct {
	Arr string // name of the SMT array (Int -> Int)
	Lo  *T
	Len *T
	Cap *T
}

func (e *Exec) symIndexAddr(s *State, b *ssa.BasicBlock, idx int, prev *ssa.BasicBlock, i *ssa.IndexAddr, x *SymSlice, it *T) ([]Out, bool) {
	unsupported("symbolic slice indexing not available in this mode")
	return nil, true
}

func (e *Exec) symSliceOp(s *State, i *ssa.Slice, x *SymSlice) (Val, string) {
	unsupported("symbolic slice slicing not available in this mode")
	return nil, ""
}

func (e *Exec) symAppend(s *State, c *ssa.Call, ss *SymSlice, more Val) []Out {
	unsupported("symbolic slice append not available in this mode")
	return nil
}

func (e *Exec) convertRunes(s *State, i *ssa.Convert, v Val) (Val, bool) {
	return nil, false
}
