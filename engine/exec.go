package main

// Forward symbolic execution over go/ssa (DESIGN §3). Every instruction kind,
// operator and callee is handled explicitly or rejected with "outside subset"
// (unsupported); there is no guessing default.

import (
	"fmt"
	"go/constant"
	"go/token"
	"go/types"
	"math/big"
	"strings"

	"golang.org/x/tools/go/ssa"
)

type Out struct {
	St    *State
	Rets  []Val
	Panic string // non-empty: the path ends in a run-time panic of this kind
}

type Exec struct {
	w          *World
	fnUnder    *ssa.Function // function whose contract is being verified
	conUnder   *Contract
	sink       func(*Oblig)
	stats      *FuncStats
	callSeq    map[string]int
	maxDepth   int
	noContract map[string]bool // callees to inline even though they have a contract
	freshSeq   int
	scenario   string
	overflow   bool
	curGen     *shapeGen
	curCtx     *obCtx
	safetyHits []string
}

type FuncStats struct {
	Func          string
	SSAInstrs     int
	Shapes        int
	ShapesSkipped int
	Paths         int
	FeasiblePaths int
	Inlined       map[string]int
	ByContract    map[string]int
	Modelled      map[string]int
	Havocked      map[string]int
	Unsupported   map[string]int
	LoopsConcrete int
}

func newFuncStats(name string) *FuncStats {
	return &FuncStats{Func: name, Inlined: map[string]int{}, ByContract: map[string]int{}, Modelled: map[string]int{}, Havocked: map[string]int{}, Unsupported: map[string]int{}}
}

func (e *Exec) fresh(prefix string, s Sort) *T {
	e.freshSeq++
	return mkVar(fmt.Sprintf("%s!%d", prefix, e.freshSeq), s)
}

const maxBlockVisits = 300
const maxSteps = 4_000_000

func (e *Exec) val(s *State, v ssa.Value) Val {
	switch c := v.(type) {
	case *ssa.Const:
		return e.constVal(c)
	case *ssa.Function:
		return Closure{Fn: c}
	case *ssa.Global:
		return e.global(s, c)
	case *ssa.Builtin:
		unsupported("builtin %s used as value", c.Name())
	}
	x, ok := s.top().Env[v]
	if !ok {
		unsupported("internal: unbound SSA value %s = %s in %s", v.Name(), v.String(), s.top().Fn.Name())
	}
	return x
}

func (e *Exec) global(s *State, g *ssa.Global) Val {
	key := "global:" + g.String()
	if v, ok := s.Ghost[key]; ok {
		return v
	}
	elem := g.Type().(*types.Pointer).Elem()
	// error sentinels: opaque non-nil errors
	if _, isIface := elem.Underlying().(*types.Interface); isIface {
		content := Iface{Dyn: types.NewPointer(types.Universe.Lookup("error").Type()), V: Opaque{Tag: g.Name(), Typ: elem}}
		r := s.alloc(content)
		delete(s.Fresh, r.Cell)
		s.Ghost[key] = r
		return r
	}
	// other package-level variables of the module: their value is what the
	// package initialiser stores (assumed not to be reassigned later; listed)
	if g.Pkg != nil && strings.HasPrefix(g.Pkg.Pkg.Path(), e.w.modPath) {
		r := s.alloc(zeroVal(elem))
		delete(s.Fresh, r.Cell)
		s.Ghost[key] = r
		initKey := "initdone:" + g.Pkg.Pkg.Path()
		if _, done := s.Ghost[initKey]; !done {
			s.Ghost[initKey] = tTrue
			if initFn := g.Pkg.Func("init"); initFn != nil && initFn.Blocks != nil {
				depth := len(s.Frames)
				outs := e.run(s, initFn, nil)
				if len(outs) != 1 || outs[0].Panic != "" || outs[0].St != s {
					unsupported("package initialiser of %s is outside the subset", g.Pkg.Pkg.Path())
				}
				s.Frames = s.Frames[:depth]
			}
			s.Trace = append(s.Trace, "assume: package-level variable "+g.Name()+" keeps the value its initialiser gives it")
		}
		return r
	}
	unsupported("global %s of type %s", g.Name(), elem)
	return nil
}

func (e *Exec) constVal(c *ssa.Const) Val {
	t := c.Type()
	if c.Value == nil {
		if _, isTP := t.(*types.TypeParam); isTP {
			unsupported("zero value of type parameter")
		}
		return zeroVal(t)
	}
	b, ok := t.Underlying().(*types.Basic)
	if !ok {
		unsupported("constant of type %s", t)
	}
	switch {
	case b.Info()&types.IsBoolean != 0:
		return mkBool(constant.BoolVal(c.Value))
	case b.Info()&types.IsString != 0:
		return lit(constant.StringVal(c.Value))
	case b.Info()&types.IsInteger != 0:
		i, ok := new(big.Int).SetString(c.Value.ExactString(), 10)
		if !ok {
			unsupported("integer constant %s", c.Value)
		}
		return mkIntBig(i)
	case b.Info()&types.IsFloat != 0:
		f, _ := constant.Float64Val(c.Value) // rounded to float64 as the compiler does
		r := new(big.Rat)
		if r.SetFloat64(f) == nil {
			unsupported("non-finite float constant")
		}
		return mkReal(r)
	}
	unsupported("constant %s", c)
	return nil
}

func (e *Exec) run(s *State, fn *ssa.Function, args []Val) []Out {
	if fn.Blocks == nil {
		unsupported("no body for %s", fn)
	}
	if len(s.Frames) > 40 {
		unsupported("call depth exceeded at %s", fn)
	}
	fr := &Frame{Fn: fn, Env: map[ssa.Value]Val{}}
	for i, p := range fn.Params {
		fr.Env[p] = args[i]
	}
	s.Frames = append(s.Frames, fr)
	outs := e.exec(s, fn.Blocks[0], 0, nil)
	for _, o := range outs {
		if len(o.St.Frames) > 0 && o.Panic == "" {
			o.St.Frames = o.St.Frames[:len(o.St.Frames)-1]
		}
	}
	return outs
}

func (e *Exec) exec(s *State, b *ssa.BasicBlock, from int, prev *ssa.BasicBlock) []Out {
	env := s.top().Env
	if from == 0 {
		s.Visits[b]++
		pcKey := fmt.Sprintf("pc@%p", b)
		if s.Visits[b] == 1 {
			s.Ghost[pcKey] = mkInt(int64(len(s.PC)))
		}
		if s.Visits[b] > maxBlockVisits {
			// A loop that went round that often without a single symbolic decision
			// runs on the scenario's concrete data alone: it does not terminate within
			// the bound on this scenario (a bounded termination obligation, C18).
			if n0, ok := s.Ghost[pcKey].(*T); ok {
				if v, isC := n0.intVal(); isC && int(v) == len(s.PC) {
					panic(execPanic{fmt.Sprintf("non-termination: the loop at block %d of %s ran %d times on the scenario's concrete data without finishing", b.Index, b.Parent().Name(), maxBlockVisits)})
				}
			}
			unsupported("loop needs invariant: block %d of %s visited more than %d times on one path", b.Index, b.Parent().Name(), maxBlockVisits)
		}
		newv := map[ssa.Value]Val{}
		for _, ins := range b.Instrs {
			p, ok := ins.(*ssa.Phi)
			if !ok {
				break
			}
			found := false
			for i, pred := range b.Preds {
				if pred == prev {
					newv[p] = e.val(s, p.Edges[i])
					found = true
					break
				}
			}
			if !found {
				unsupported("internal: phi without matching predecessor")
			}
		}
		for k, v := range newv {
			env[k] = v
		}
	}
	for idx := from; idx < len(b.Instrs); idx++ {
		*s.Steps++
		if *s.Steps > maxSteps {
			unsupported("step budget exceeded")
		}
		switch i := b.Instrs[idx].(type) {
		case *ssa.Phi, *ssa.DebugRef:
		case *ssa.Alloc:
			env[i] = s.alloc(zeroVal(i.Type().(*types.Pointer).Elem()))
		case *ssa.FieldAddr:
			r := e.val(s, i.X).(Ref)
			if r.isNil() {
				return []Out{{St: s, Panic: "nil dereference (field address) at " + e.pos(i)}}
			}
			env[i] = r.sub(i.Field)
		case *ssa.Field:
			a, ok := e.val(s, i.X).(*Agg)
			if !ok {
				unsupported("field of %T", e.val(s, i.X))
			}
			env[i] = a.Elems[i.Field]
		case *ssa.IndexAddr:
			outs, done := e.indexAddr(s, b, idx, prev, i)
			if done {
				return outs
			}
		case *ssa.Index:
			switch x := e.val(s, i.X).(type) {
			case *Agg:
				k, ok := e.val(s, i.Index).(*T).intVal()
				if !ok {
					unsupported("symbolic array index")
				}
				if k < 0 || int(k) >= len(x.Elems) {
					return []Out{{St: s, Panic: "index out of range at " + e.pos(i)}}
				}
				env[i] = x.Elems[k]
			default:
				unsupported("index of %T", x)
			}
		case *ssa.Store:
			r, ok := e.val(s, i.Addr).(Ref)
			if !ok {
				unsupported("store through %T", e.val(s, i.Addr))
			}
			if r.isNil() {
				return []Out{{St: s, Panic: "nil dereference (store) at " + e.pos(i)}}
			}
			s.store(r, e.val(s, i.Val))
		case *ssa.UnOp:
			switch i.Op {
			case token.MUL:
				r, ok := e.val(s, i.X).(Ref)
				if !ok {
					unsupported("load through %T", e.val(s, i.X))
				}
				if r.isNil() {
					return []Out{{St: s, Panic: "nil dereference (load) at " + e.pos(i)}}
				}
				env[i] = s.load(r)
			case token.NOT:
				env[i] = mkNot(e.val(s, i.X).(*T))
			case token.SUB:
				x := e.val(s, i.X).(*T)
				if x.Sort == SInt {
					env[i] = mkArith("-", mkInt(0), x)
				} else {
					env[i] = mkArith("-", mkReal(ratInt(0)), x)
				}
			default:
				unsupported("unary operator %s", i.Op)
			}
		case *ssa.BinOp:
			v, pan := e.binop(s, i)
			if pan != "" {
				return []Out{{St: s, Panic: pan + " at " + e.pos(i)}}
			}
			env[i] = v
		case *ssa.MakeInterface:
			env[i] = Iface{Dyn: i.X.Type(), V: e.val(s, i.X)}
		case *ssa.ChangeInterface:
			env[i] = e.val(s, i.X)
		case *ssa.ChangeType:
			v := e.val(s, i.X)
			if a, ok := v.(*Agg); ok {
				v = &Agg{Elems: a.Elems, Typ: i.Type()}
			}
			env[i] = v
		case *ssa.Convert:
			env[i] = e.convert(s, i)
		case *ssa.TypeAssert:
			outs, done := e.typeAssert(s, i)
			if done {
				return outs
			}
		case *ssa.Extract:
			env[i] = e.val(s, i.Tuple).(Tuple)[i.Index]
		case *ssa.MakeSlice:
			n, ok := e.val(s, i.Len).(*T).intVal()
			if !ok {
				unsupported("make([]T, n) with symbolic length")
			}
			cp, ok2 := e.val(s, i.Cap).(*T).intVal()
			if !ok2 {
				unsupported("make([]T, n, c) with symbolic capacity")
			}
			if n < 0 || cp < n {
				return []Out{{St: s, Panic: "makeslice: len out of range at " + e.pos(i)}}
			}
			elem := i.Type().Underlying().(*types.Slice).Elem()
			arr := &Agg{}
			for k := int64(0); k < cp; k++ {
				arr.Elems = append(arr.Elems, zeroVal(elem))
			}
			r := s.alloc(arr)
			env[i] = SliceV{Arr: r, Lo: 0, Len_: int(n), Cap: int(cp)}
		case *ssa.Slice:
			v, pan := e.sliceOp(s, i)
			if pan != "" {
				return []Out{{St: s, Panic: pan + " at " + e.pos(i)}}
			}
			env[i] = v
		case *ssa.MakeClosure:
			var binds []Val
			for _, bv := range i.Bindings {
				binds = append(binds, e.val(s, bv))
			}
			env[i] = Closure{Fn: i.Fn.(*ssa.Function), Binds: binds}
		case *ssa.MakeMap:
			r := s.alloc(&MapAgg{})
			env[i] = MapV{Cell: r.Cell}
		case *ssa.MapUpdate:
			if pan := e.mapUpdate(s, i); pan != "" {
				return []Out{{St: s, Panic: pan + " at " + e.pos(i)}}
			}
		case *ssa.Lookup:
			env[i] = e.lookup(s, i)
		case *ssa.Range, *ssa.Next:
			outs, done := e.rangeNext(s, b, idx, prev, i)
			if done {
				return outs
			}
		case *ssa.Call:
			var res []Out
			for _, o := range e.call(s, i) {
				if o.Panic != "" {
					res = append(res, o)
					continue
				}
				st := o.St
				switch len(o.Rets) {
				case 0:
				case 1:
					st.top().Env[i] = o.Rets[0]
				default:
					st.top().Env[i] = Tuple(o.Rets)
				}
				res = append(res, e.exec(st, b, idx+1, prev)...)
			}
			return res
		case *ssa.If:
			c := e.val(s, i.Cond).(*T)
			if c.isTrue() {
				return e.exec(s, b.Succs[0], 0, b)
			}
			if c.isFalse() {
				return e.exec(s, b.Succs[1], 0, b)
			}
			t := s.clone()
			t.assume(c)
			s.assume(mkNot(c))
			return append(e.exec(t, b.Succs[0], 0, b), e.exec(s, b.Succs[1], 0, b)...)
		case *ssa.Jump:
			return e.exec(s, b.Succs[0], 0, b)
		case *ssa.Return:
			var rs []Val
			for _, r := range i.Results {
				rs = append(rs, e.val(s, r))
			}
			return []Out{{St: s, Rets: rs}}
		case *ssa.Panic:
			return []Out{{St: s, Panic: "explicit panic at " + e.pos(i)}}
		case *ssa.RunDefers:
			// deferred calls of this frame, last in first out; each must have one
			// outcome (they are clean-up closures here)
			key := "defers:" + fmt.Sprint(len(s.Frames))
			dl, _ := s.Ghost[key].(deferList)
			delete(s.Ghost, key)
			for k := len(dl) - 1; k >= 0; k-- {
				d := dl[k]
				switch f := d.fn.(type) {
				case Closure:
					if f.Fn == nil {
						return []Out{{St: s, Panic: "deferred call of nil func at " + e.pos(i)}}
					}
					outs := e.callClosure(s, f, d.args)
					if len(outs) != 1 || outs[0].Panic != "" {
						unsupported("deferred call with %d outcomes", len(outs))
					}
					s = outs[0].St
				case Opaque:
					s.Trace = append(s.Trace, "assume_frame: deferred call of func value "+f.Tag+" touches no tracked state")
				default:
					unsupported("deferred call of %T", d.fn)
				}
			}
			env = s.top().Env
		case *ssa.Defer:
			if i.Call.IsInvoke() {
				unsupported("deferred method invocation in %s", b.Parent().Name())
			}
			var fv Val
			switch f := i.Call.Value.(type) {
			case *ssa.Function:
				fv = Closure{Fn: f}
			case *ssa.Builtin:
				unsupported("deferred builtin in %s", b.Parent().Name())
			default:
				fv = e.val(s, i.Call.Value)
			}
			var as []Val
			for _, a := range i.Call.Args {
				as = append(as, e.val(s, a))
			}
			key := "defers:" + fmt.Sprint(len(s.Frames))
			dl, _ := s.Ghost[key].(deferList)
			s.Ghost[key] = append(append(deferList{}, dl...), deferred{fn: fv, args: as})
		case *ssa.Go, *ssa.Select, *ssa.Send, *ssa.MakeChan:
			unsupported("concurrency construct %T", i)
		default:
			unsupported("instruction %T (%s)", i, i)
		}
	}
	unsupported("internal: fell off block")
	return nil
}

func (e *Exec) pos(i ssa.Instruction) string {
	p := e.w.prog.Fset.Position(i.Pos())
	if !p.IsValid() {
		return i.Parent().Name()
	}
	f := p.Filename
	if k := strings.Index(f, "/repo/"); k >= 0 {
		f = f[k+6:]
	}
	// function-relative positions keep obligation names stable under edits elsewhere
	return fmt.Sprintf("%s:%d", f, p.Line)
}

func (e *Exec) indexAddr(s *State, b *ssa.BasicBlock, idx int, prev *ssa.BasicBlock, i *ssa.IndexAddr) ([]Out, bool) {
	env := s.top().Env
	it, ok := e.val(s, i.Index).(*T)
	if !ok {
		unsupported("index of kind %T", e.val(s, i.Index))
	}
	switch x := e.val(s, i.X).(type) {
	case Ref: // pointer to array
		if x.isNil() {
			return []Out{{St: s, Panic: "nil dereference (index) at " + e.pos(i)}}, true
		}
		k, ok := it.intVal()
		if !ok {
			unsupported("symbolic index into array")
		}
		arr := s.load(x).(*Agg)
		if k < 0 || int(k) >= len(arr.Elems) {
			return []Out{{St: s, Panic: "index out of range at " + e.pos(i)}}, true
		}
		env[i] = x.sub(int(k))
	case SliceV:
		k, ok := it.intVal()
		if !ok {
			unsupported("symbolic index into concrete slice")
		}
		if k < 0 || int(k) >= x.Len_ {
			return []Out{{St: s, Panic: "index out of range at " + e.pos(i)}}, true
		}
		env[i] = x.Arr.sub(x.Lo + int(k))
	case *SymSlice:
		return e.symIndexAddr(s, b, idx, prev, i, x, it)
	default:
		unsupported("IndexAddr on %T", x)
	}
	return nil, false
}

func (e *Exec) sliceOp(s *State, i *ssa.Slice) (Val, string) {
	geti := func(v ssa.Value, def int) (int, bool) {
		if v == nil {
			return def, true
		}
		k, ok := e.val(s, v).(*T).intVal()
		return int(k), ok
	}
	switch x := e.val(s, i.X).(type) {
	case Ref: // *[N]T
		if x.isNil() {
			return nil, "nil dereference (slice)"
		}
		arr := s.load(x).(*Agg)
		lo, ok1 := geti(i.Low, 0)
		hi, ok2 := geti(i.High, len(arr.Elems))
		if !ok1 || !ok2 {
			unsupported("symbolic slice bounds")
		}
		if lo < 0 || hi < lo || hi > len(arr.Elems) {
			return nil, "slice bounds out of range"
		}
		return SliceV{Arr: x, Lo: lo, Len_: hi - lo, Cap: len(arr.Elems) - lo}, ""
	case SliceV:
		lo, ok1 := geti(i.Low, 0)
		hi, ok2 := geti(i.High, x.Len_)
		if !ok1 || !ok2 {
			unsupported("symbolic slice bounds")
		}
		if lo < 0 || hi < lo || hi > x.Cap {
			return nil, "slice bounds out of range"
		}
		if x.Arr.isNil() {
			return SliceV{}, ""
		}
		return SliceV{Arr: x.Arr, Lo: x.Lo + lo, Len_: hi - lo, Cap: x.Cap - lo}, ""
	case Text:
		return e.sliceText(s, i, x)
	case *SymSlice:
		return e.symSliceOp(s, i, x)
	}
	unsupported("slice of %T", e.val(s, i.X))
	return nil, ""
}

func (e *Exec) sliceText(s *State, i *ssa.Slice, x Text) (Val, string) {
	cs, ok := x.concrete()
	geti := func(v ssa.Value, def int) (int, bool) {
		if v == nil {
			return def, true
		}
		k, ok := e.val(s, v).(*T).intVal()
		return int(k), ok
	}
	if ok {
		lo, ok1 := geti(i.Low, 0)
		hi, ok2 := geti(i.High, len(cs))
		if !ok1 || !ok2 {
			unsupported("symbolic string slice bounds")
		}
		if lo < 0 || hi < lo || hi > len(cs) {
			return nil, "slice bounds out of range (string)"
		}
		return lit(cs[lo:hi]), ""
	}
	// slicing an unknown string: bounds become safety obligations; the result is
	// a derived atom named after the bounds
	if len(x.Frags) == 1 && x.Frags[0].Kind == FAtom {
		a := x.Frags[0].Atom
		lv := e.atomLen(s, a)
		var lo, hi *T = mkInt(0), lv
		if i.Low != nil {
			lo = e.val(s, i.Low).(*T)
		}
		if i.High != nil {
			hi = e.val(s, i.High).(*T)
		}
		ok := mkAnd(mkCmp("<=", mkInt(0), lo), mkCmp("<=", lo, hi), mkCmp("<=", hi, lv))
		e.emitSafety(s, "slice-bounds", e.pos(i), ok)
		s.assume(ok) // execution continues only when in bounds
		sub := subAtom(a, lo, hi, lv)
		s.assume(mkEq(e.atomLen(s, sub.Frags[0].Atom), mkArith("-", hi, lo)))
		return sub, ""
	}
	unsupported("slice of non-concrete string %s", x)
	return nil, ""
}

func (e *Exec) typeAssert(s *State, i *ssa.TypeAssert) ([]Out, bool) {
	env := s.top().Env
	iv, ok := e.val(s, i.X).(Iface)
	if !ok {
		unsupported("type assertion on %T", e.val(s, i.X))
	}
	okv := false
	var inner Val
	if iv.Dyn != nil {
		if types.IsInterface(i.AssertedType) {
			okv = types.Implements(iv.Dyn, i.AssertedType.Underlying().(*types.Interface))
			inner = iv
		} else {
			okv = types.Identical(iv.Dyn, i.AssertedType)
			inner = iv.V
		}
	}
	if !i.CommaOk {
		if !okv {
			return []Out{{St: s, Panic: "failed type assertion at " + e.pos(i)}}, true
		}
		env[i] = inner
		return nil, false
	}
	if !okv {
		inner = zeroVal(i.AssertedType)
	}
	env[i] = Tuple{inner, mkBool(okv)}
	return nil, false
}

func basicInfo(t types.Type) types.BasicInfo {
	if b, ok := t.Underlying().(*types.Basic); ok {
		return b.Info()
	}
	return 0
}

func intRange(t types.Type) (lo, hi *big.Int, ok bool) {
	b, isb := t.Underlying().(*types.Basic)
	if !isb || b.Info()&types.IsInteger == 0 {
		return nil, nil, false
	}
	bits := 64
	switch b.Kind() {
	case types.Int8, types.Uint8:
		bits = 8
	case types.Int16, types.Uint16:
		bits = 16
	case types.Int32, types.Uint32:
		bits = 32
	}
	if b.Info()&types.IsUnsigned != 0 {
		return big.NewInt(0), new(big.Int).Sub(pow2(bits), big.NewInt(1)), true
	}
	return new(big.Int).Neg(pow2(bits - 1)), new(big.Int).Sub(pow2(bits-1), big.NewInt(1)), true
}

func (e *Exec) binop(s *State, i *ssa.BinOp) (Val, string) {
	x, y := e.val(s, i.X), e.val(s, i.Y)
	switch xv := x.(type) {
	case Ref:
		yv, ok := y.(Ref)
		if !ok {
			unsupported("pointer compared with %T", y)
		}
		switch i.Op {
		case token.EQL:
			return mkBool(xv == yv), ""
		case token.NEQ:
			return mkBool(xv != yv), ""
		}
		unsupported("pointer operator %s", i.Op)
	case Text:
		yv, ok := y.(Text)
		if !ok {
			unsupported("string op with %T", y)
		}
		switch i.Op {
		case token.ADD:
			return xv.concat(yv), ""
		case token.EQL, token.NEQ:
			t, ok := textEq(xv, yv)
			if !ok {
				unsupported("undecidable string comparison %s == %s", xv, yv)
			}
			if i.Op == token.NEQ {
				t = mkNot(t)
			}
			return t, ""
		}
		unsupported("string operator %s", i.Op)
	case Iface:
		yv, ok := y.(Iface)
		if !ok {
			unsupported("interface compared with %T", y)
		}
		var eq *T
		switch {
		case xv.Dyn == nil || yv.Dyn == nil:
			eq = mkBool(xv.Dyn == nil && yv.Dyn == nil)
		case !types.Identical(xv.Dyn, yv.Dyn):
			eq = tFalse
		default:
			xt, ok1 := xv.V.(*T)
			yt, ok2 := yv.V.(*T)
			if ok1 && ok2 {
				eq = mkEq(xt, yt)
			} else if xo, ok := xv.V.(Opaque); ok {
				yo, _ := yv.V.(Opaque)
				eq = mkBool(xo.Tag == yo.Tag)
			} else if xr, ok := xv.V.(Ref); ok {
				yr, _ := yv.V.(Ref)
				eq = mkBool(xr == yr)
			} else {
				unsupported("interface comparison of %T", xv.V)
			}
		}
		switch i.Op {
		case token.EQL:
			return eq, ""
		case token.NEQ:
			return mkNot(eq), ""
		}
		unsupported("interface operator %s", i.Op)
	case SliceV:
		// a slice can only be compared with nil
		if yv, ok := y.(SliceV); ok && (xv.Arr.isNil() && xv.Len_ == 0 || yv.Arr.isNil() && yv.Len_ == 0) {
			eq := xv.Arr.isNil() == yv.Arr.isNil()
			switch i.Op {
			case token.EQL:
				return mkBool(eq), ""
			case token.NEQ:
				return mkBool(!eq), ""
			}
		}
		unsupported("comparison on %T", x)
	case MapV:
		if yv, ok := y.(MapV); ok && (xv.Cell == 0 || yv.Cell == 0) {
			eq := xv.Cell == yv.Cell
			switch i.Op {
			case token.EQL:
				return mkBool(eq), ""
			case token.NEQ:
				return mkBool(!eq), ""
			}
		}
		unsupported("comparison on %T", x)
	case Closure:
		unsupported("comparison on %T", x)
	case *T:
		yv, ok := y.(*T)
		if !ok {
			unsupported("scalar op with %T", y)
		}
		if xv.Sort == SBool {
			switch i.Op {
			case token.EQL:
				return mkIff(xv, yv), ""
			case token.NEQ:
				return mkNot(mkIff(xv, yv)), ""
			}
			unsupported("bool operator %s", i.Op)
		}
		switch i.Op {
		case token.EQL:
			return mkEq(xv, yv), ""
		case token.NEQ:
			return mkNot(mkEq(xv, yv)), ""
		case token.LSS:
			return mkCmp("<", xv, yv), ""
		case token.LEQ:
			return mkCmp("<=", xv, yv), ""
		case token.GTR:
			return mkCmp(">", xv, yv), ""
		case token.GEQ:
			return mkCmp(">=", xv, yv), ""
		}
		info := basicInfo(i.X.Type())
		if info&types.IsFloat != 0 {
			switch i.Op {
			case token.ADD, token.SUB:
				return e.floatAddSub(s, i.Op, xv, yv), ""
			}
			unsupported("float operator %s not modelled", i.Op)
		}
		if info&types.IsInteger != 0 {
			var r *T
			switch i.Op {
			case token.ADD:
				r = mkArith("+", xv, yv)
			case token.SUB:
				r = mkArith("-", xv, yv)
			case token.MUL:
				r = mkArith("*", xv, yv)
				if !xv.isConst() && !yv.isConst() {
					unsupported("non-linear integer multiplication")
				}
			case token.REM:
				if yv.Op == "num" && yv.Num.Sign() == 0 {
					return nil, "integer divide by zero"
				}
				if !yv.isConst() {
					unsupported("symbolic divisor")
				}
				return mkGoMod(xv, yv), ""
			default:
				unsupported("integer operator %s not modelled", i.Op)
			}
			if r.isConst() {
				// constant folding must respect wrap-around: reject if out of range
				lo, hi, _ := intRange(i.Type())
				if r.Num.Num().Cmp(lo) < 0 || r.Num.Num().Cmp(hi) > 0 {
					unsupported("constant integer overflow")
				}
			} else if e.overflow {
				lo, hi, _ := intRange(i.Type())
				e.emitSafety(s, "overflow", e.pos(i), mkAnd(mkCmp(">=", r, mkIntBig(lo)), mkCmp("<=", r, mkIntBig(hi))))
			}
			return r, ""
		}
		unsupported("operator %s on %s", i.Op, i.X.Type())
	}
	unsupported("binary operator on %T", x)
	return nil, ""
}

// floatAddSub: IEEE addition is exact on the reals only when the result is
// representable. For a ± c with both integral and |result| <= 2^53 this holds;
// otherwise the result is a fresh unconstrained real (sound havoc), so nothing
// can be proved through an inexact operation.
func (e *Exec) floatAddSub(s *State, op token.Token, x, y *T) *T {
	o := "+"
	if op == token.SUB {
		o = "-"
	}
	exact := mkArith(o, x, y)
	if exact.isConst() {
		// concrete: round to nearest float64 exactly as the hardware does
		f, _ := exact.Num.Float64()
		r := new(big.Rat)
		if r.SetFloat64(f) == nil {
			unsupported("float overflow in constant arithmetic")
		}
		return mkReal(r)
	}
	isInt := func(t *T) *T { return mkBool(isIntegral(t)) } // syntactic; non-integral operands are havocked
	abs := func(t *T) *T { return mkIte(mkCmp(">=", t, mkReal(ratInt(0))), t, mkArith("-", mkReal(ratInt(0)), t)) }
	p53 := mkReal(new(big.Rat).SetInt(pow2(53)))
	p54 := mkReal(new(big.Rat).SetInt(pow2(54)))
	// (1) integral operands, |result| <= 2^53: exact.
	c1 := mkAnd(isInt(x), isInt(y), mkCmp("<=", abs(exact), p53))
	// the havoc value: unconstrained, except that the float64 sum of two integral
	// floats is itself integral (exact below 2^52, all floats integral above)
	var hv *T
	if isIntegral(x) && isIntegral(y) {
		hv = toReal(e.fresh("fpround", SInt))
	} else {
		hv = e.fresh("fpround", SReal)
	}
	res := hv
	// (1b) |x| = 2^53 moving outward by one: a tie, round-half-to-even gives x.
	// (2) |x| >= 2^54 and |y| <= 1: ulp(x) >= 4, so x +/- y rounds back to x.
	// Integers strictly between 2^53 and 2^54 (+/-1 is a tie whose outcome depends
	// on the significand's parity) are havocked: contracts exclude that zone by a
	// stated bound.
	if y.isConst() && new(big.Rat).Abs(y.Num).Cmp(ratInt(1)) <= 0 {
		res = mkIte(mkOr(mkCmp(">=", abs(x), p54), mkAnd(mkEq(abs(x), p53), mkCmp(">", abs(exact), p53))), x, hv)
	}
	s.Trace = append(s.Trace, "float "+o+": exact for integral operands with |result| <= 2^53; x+/-1 = x for |x| = 2^53 (outward) and |x| >= 2^54; otherwise havocked (sound over-approximation)")
	return mkIte(c1, exact, res)
}

func (e *Exec) convert(s *State, i *ssa.Convert) Val {
	v := e.val(s, i.X)
	from, to := i.X.Type().Underlying(), i.Type().Underlying()
	fb, fok := from.(*types.Basic)
	tb, tok := to.(*types.Basic)
	if fok && tok {
		t, isT := v.(*T)
		switch {
		case fb.Info()&types.IsString != 0 && tb.Info()&types.IsString != 0:
			return v
		case isT && fb.Info()&types.IsInteger != 0 && tb.Info()&types.IsFloat != 0:
			return toReal(t) // exact for |v| <= 2^53; constants are pre-rounded by go/constant
		case isT && fb.Info()&types.IsFloat != 0 && tb.Info()&types.IsInteger != 0:
			if tb.Kind() != types.Int64 && tb.Kind() != types.Int {
				unsupported("float to %s conversion", tb)
			}
			return e.num(s).trunc64(t)
		case isT && fb.Info()&types.IsInteger != 0 && tb.Info()&types.IsInteger != 0:
			lo, hi, _ := intRange(i.Type())
			flo, fhi, _ := intRange(i.X.Type())
			if flo.Cmp(lo) >= 0 && fhi.Cmp(hi) <= 0 {
				return t
			}
			if t.isConst() {
				if t.Num.Num().Cmp(lo) >= 0 && t.Num.Num().Cmp(hi) <= 0 {
					return t
				}
				unsupported("wrapping constant conversion")
			}
			// narrowing: value kept when in range, otherwise havoc
			hv := e.fresh("wrap", SInt)
			return mkIte(mkAnd(mkCmp(">=", t, mkIntBig(lo)), mkCmp("<=", t, mkIntBig(hi))), t, hv)
		case isT && fb.Info()&types.IsFloat != 0 && tb.Info()&types.IsFloat != 0:
			return t
		}
	}
	if r, ok := e.convertRunes(s, i, v); ok {
		return r
	}
	// string <-> []byte: the bytes of a text are that text (only passed on, compared
	// or returned in the code under contract; indexing such a value is not modelled)
	isBytes := func(t types.Type) bool {
		sl, ok := t.(*types.Slice)
		if !ok {
			return false
		}
		b, ok := sl.Elem().Underlying().(*types.Basic)
		return ok && b.Kind() == types.Uint8
	}
	if _, isText := v.(Text); isText {
		if (fok && fb.Info()&types.IsString != 0 && isBytes(to)) || (isBytes(from) && tok && tb.Info()&types.IsString != 0) {
			return v
		}
	}
	unsupported("conversion %s -> %s", i.X.Type(), i.Type())
	return nil
}

func (e *Exec) emitSafety(s *State, kind, where string, goal *T) {
	if goal.isTrue() {
		return
	}
	e.emit(s, &Oblig{Kind: "safety", Name: fmt.Sprintf("%s/safety/%s", e.fnName(), kind), Where: where, Goal: goal})
}

func (e *Exec) fnName() string {
	if e.conUnder != nil {
		return e.conUnder.Func
	}
	if e.fnUnder != nil {
		return e.fnUnder.Name()
	}
	return "?"
}

func (e *Exec) num(s *State) numCtx {
	return numCtx{floorFn: func(a *T) *T { return freshIntDef(a, func(d *T) { s.assume(d) }) }}
}

// atomLen is the length variable of an unknown string, with its standing facts.
func (e *Exec) atomLen(s *State, a string) *T {
	lv := mkVar("len!"+a, SInt)
	if _, done := s.Ghost["lenfact:"+a]; !done {
		s.Ghost["lenfact:"+a] = tTrue
		s.assume(mkAnd(mkCmp(">=", lv, mkInt(0)), mkIff(mkEq(lv, mkInt(0)), atomEmptyVar(a))))
	}
	return lv
}

// subAtom names the substring a[lo:hi] (head/tail for the two common forms).
func subAtom(a string, lo, hi, ln *T) Text {
	if lo.isConst() && hi.isConst() {
		l, _ := lo.intVal()
		h, _ := hi.intVal()
		if l == 0 && h == 1 {
			return atom("head(" + a + ")")
		}
	}
	if l, ok := lo.intVal(); ok && l == 1 && termEq(hi, ln) {
		return atom("tail(" + a + ")")
	}
	return atom("sub(" + a + "," + lo.String() + "," + hi.String() + ")")
}

// deferred calls of one frame (kept in State.Ghost under "defers:<depth>")
type deferred struct {
	fn   Val
	args []Val
}
type deferList []deferred
