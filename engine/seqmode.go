package main

// Sequence mode (`option seq`): functions over strings, []rune, []string and
// [][]rune with loops. Strings are modelled as the sequence of runes they
// decode to; a sequence is a view [lo,hi) of an SMT array Int->Int; a sequence
// of sequences is three arrays (base, lo, hi) and a count. Loops are cut at
// their header with the contract's `invariant loopK:` clause (established on
// entry, assumed on a havocked state, preserved on every back edge) — no
// unrolling bound. Obligations are quantified SMT-LIB scripts (raw), raced on
// the three solvers like every other query.
//
// Writes are allowed only to objects the function created itself (a
// strings.Builder, a slice from make, the array of a variadic call); all of
// them are havocked at a loop header. Anything else is "outside subset" and
// leaves the contract undecided.

import (
	"fmt"
	"go/ast"
	"go/constant"
	"go/token"
	"go/types"
	"sort"
	"strings"
	"sync"
	"unicode"

	"golang.org/x/tools/go/ssa"
)

type sv interface{}
type svInt struct{ t string }
type svBool struct{ t string }
type svSeq struct{ arr, lo, hi string }
type svSS struct{ base, lo, hi, n string }
type svRef struct{ obj int }
type svArr struct{ elems []sv } // heap value of a fixed array (varargs)
type svVar struct{ elems []sv } // a slice of such an array
type svElemPtr struct {
	of  sv
	idx string
	ci  int // concrete index when of is an array ref, else -1
}
type svObj struct{ id string }
type svFieldPtr struct {
	obj   svObj
	field string
	typ   types.Type
}
type svTuple []sv
type svOpaque struct{ why string }

type seqState struct {
	env    map[ssa.Value]sv
	heap   map[int]sv
	fields map[string]sv
	pc     []string
	trace  []int
}

func (s *seqState) clone() *seqState {
	n := &seqState{env: make(map[ssa.Value]sv, len(s.env)), heap: make(map[int]sv, len(s.heap)), fields: s.fields,
		pc: append([]string{}, s.pc...), trace: append([]int{}, s.trace...)}
	for k, v := range s.env {
		n.env[k] = v
	}
	for k, v := range s.heap {
		n.heap[k] = v
	}
	return n
}

type seqFrame struct {
	fn      *ssa.Function
	con     *Contract // nil when inlined
	names   map[string]ssa.Value
	headers map[*ssa.BasicBlock]int // loop header -> ordinal (1-based)
	ret     func(st *seqState, results []sv)
	depth   int
}

type seqRun struct {
	w       *World
	con     *Contract
	res     *FuncResult
	decls   []string
	declSet map[string]bool
	ufs     map[string]string
	fresh   int
	facts   map[string]bool // concrete unicode facts about literal runes
	pathNo  int
	safetyN map[string]int
	paths   int
}

type seqPanic struct{ msg string }

func seqUnsupported(format string, a ...interface{}) { panic(seqPanic{fmt.Sprintf(format, a...)}) }

const seqPrelude = `(declare-fun IsLower (Int) Bool)
(declare-fun IsUpper (Int) Bool)
(declare-fun IsDigit (Int) Bool)
(declare-fun IsLetter (Int) Bool)
(declare-fun ToUpper (Int) Int)
(declare-fun blen ((Array Int Int) Int Int) Int)
(define-fun alnumr ((r Int)) Bool (or (IsLetter r) (IsDigit r)))
(assert (forall ((r Int)) (! (=> (IsUpper r) (IsLetter r)) :pattern ((IsUpper r)))))
(assert (forall ((r Int)) (! (=> (IsLower r) (IsLetter r)) :pattern ((IsLower r)))))
(assert (forall ((r Int)) (! (=> (alnumr r) (alnumr (ToUpper r))) :pattern ((ToUpper r)))))
`

// seqAxiomsHold validates the three library axioms of the prelude on every code
// point, against the unicode tables of the toolchain that built govc (the same
// toolchain builds /repo).
func seqAxiomsHold() (bool, string) {
	for r := rune(0); r <= unicode.MaxRune; r++ {
		if unicode.IsUpper(r) && !unicode.IsLetter(r) {
			return false, fmt.Sprintf("IsUpper(%U) but not IsLetter", r)
		}
		if unicode.IsLower(r) && !unicode.IsLetter(r) {
			return false, fmt.Sprintf("IsLower(%U) but not IsLetter", r)
		}
		if unicode.IsLetter(r) || unicode.IsDigit(r) {
			u := unicode.ToUpper(r)
			if !(unicode.IsLetter(u) || unicode.IsDigit(u)) {
				return false, fmt.Sprintf("ToUpper(%U)=%U is neither letter nor digit", r, u)
			}
		}
	}
	return true, ""
}

func (r *seqRun) newName(p string) string {
	r.fresh++
	return fmt.Sprintf("%s_%d", p, r.fresh)
}
func (r *seqRun) declare(name, sort string) string {
	if !r.declSet[name] {
		r.declSet[name] = true
		r.decls = append(r.decls, fmt.Sprintf("(declare-const %s %s)", name, sort))
	}
	return name
}
func (r *seqRun) newInt(p string) string  { return r.declare(r.newName(p), "Int") }
func (r *seqRun) newBool(p string) string { return r.declare(r.newName(p), "Bool") }
func (r *seqRun) newArr(p string) string  { return r.declare(r.newName(p), "(Array Int Int)") }
func (r *seqRun) newArr2(p string) string {
	return r.declare(r.newName(p), "(Array Int (Array Int Int))")
}

func seqLen(x svSeq) string { return ssub(x.hi, x.lo) }
func sadd(a, b string) string {
	if a == "0" {
		return b
	}
	if b == "0" {
		return a
	}
	return "(+ " + a + " " + b + ")"
}
func ssub(a, b string) string {
	if b == "0" {
		return a
	}
	return "(- " + a + " " + b + ")"
}
func snum(n int64) string {
	if n < 0 {
		return fmt.Sprintf("(- %d)", -n)
	}
	return fmt.Sprint(n)
}

// freshSeq returns an unknown sequence (type invariant: length >= 0).
func (r *seqRun) freshSeq(st *seqState, hint string) svSeq {
	a, n := r.newArr(hint+"A"), r.newInt(hint+"N")
	st.pc = append(st.pc, "(>= "+n+" 0)")
	return svSeq{a, "0", n}
}

func (r *seqRun) freshSS(st *seqState, hint string) svSS {
	x := svSS{r.newArr2(hint + "B"), r.newArr(hint + "Lo"), r.newArr(hint + "Hi"), r.newInt(hint + "Cnt")}
	st.pc = append(st.pc, ssWF(x))
	return x
}

// ssWF is the type invariant of a slice of strings: non-negative count, every
// element a view with lo <= hi.
func ssWF(x svSS) string {
	return fmt.Sprintf("(and (>= %s 0) (forall ((wfp Int)) (! (<= (select %s wfp) (select %s wfp)) :pattern ((select %s wfp)))))", x.n, x.lo, x.hi, x.hi)
}

func isRuneSlice(t types.Type) bool {
	s, ok := t.Underlying().(*types.Slice)
	if !ok {
		return false
	}
	b, ok := s.Elem().Underlying().(*types.Basic)
	return ok && b.Kind() == types.Int32
}
func isStringT(t types.Type) bool {
	b, ok := t.Underlying().(*types.Basic)
	return ok && b.Info()&types.IsString != 0
}
func isSeqT(t types.Type) bool { return isStringT(t) || isRuneSlice(t) }
func isSST(t types.Type) bool {
	s, ok := t.Underlying().(*types.Slice)
	return ok && isSeqT(s.Elem())
}
func isIntT(t types.Type) bool {
	b, ok := t.Underlying().(*types.Basic)
	return ok && b.Info()&types.IsInteger != 0
}
func isBoolT(t types.Type) bool {
	b, ok := t.Underlying().(*types.Basic)
	return ok && b.Info()&types.IsBoolean != 0
}

func (r *seqRun) freshOf(st *seqState, t types.Type, hint string) sv {
	switch {
	case isSeqT(t):
		return r.freshSeq(st, hint)
	case isSST(t):
		return r.freshSS(st, hint)
	case isIntT(t):
		return svInt{r.newInt(hint)}
	case isBoolT(t):
		return svBool{r.newBool(hint)}
	}
	if p, ok := t.Underlying().(*types.Pointer); ok {
		if _, ok := p.Elem().Underlying().(*types.Struct); ok {
			return svObj{r.newName(hint + "Obj")}
		}
	}
	if tu, ok := t.(*types.Tuple); ok {
		var out svTuple
		for i := 0; i < tu.Len(); i++ {
			out = append(out, r.freshOf(st, tu.At(i).Type(), hint))
		}
		return out
	}
	return svOpaque{"value of type " + t.String()}
}

// literal returns the sequence of a constant string and records the concrete
// unicode facts about its runes.
func (r *seqRun) literal(st *seqState, s string) svSeq {
	a := r.newArr("lit")
	rs := []rune(s)
	for i, c := range rs {
		st.pc = append(st.pc, fmt.Sprintf("(= (select %s %d) %d)", a, i, c))
		r.runeFacts(c)
	}
	return svSeq{a, "0", fmt.Sprint(len(rs))}
}

func (r *seqRun) runeFacts(c rune) {
	b := func(name string, v bool) {
		f := fmt.Sprintf("(%s %d)", name, c)
		if !v {
			f = "(not " + f + ")"
		}
		r.facts[f] = true
	}
	b("IsLower", unicode.IsLower(c))
	b("IsUpper", unicode.IsUpper(c))
	b("IsDigit", unicode.IsDigit(c))
	b("IsLetter", unicode.IsLetter(c))
	r.facts[fmt.Sprintf("(= (ToUpper %d) %d)", c, unicode.ToUpper(c))] = true
}

func (r *seqRun) concat(st *seqState, a, b svSeq) svSeq {
	c := r.newArr("cat")
	n1, n2 := seqLen(a), seqLen(b)
	st.pc = append(st.pc,
		fmt.Sprintf("(forall ((ck Int)) (! (=> (and (<= 0 ck) (< ck %s)) (= (select %s ck) (select %s %s))) :pattern ((select %s ck))))", n1, c, a.arr, sadd(a.lo, "ck"), c),
		fmt.Sprintf("(forall ((ck Int)) (! (=> (and (<= %s ck) (< ck %s)) (= (select %s ck) (select %s %s))) :pattern ((select %s ck))))", n1, sadd(n1, n2), c, b.arr, sadd(b.lo, ssub("ck", n1)), c))
	return svSeq{c, "0", sadd(n1, n2)}
}

func (r *seqRun) script(pc []string, goal string) string {
	var sb strings.Builder
	sb.WriteString("(set-logic ALL)\n")
	sb.WriteString(seqPrelude)
	var ufs []string
	for _, d := range r.ufs {
		ufs = append(ufs, d)
	}
	sort.Strings(ufs)
	for _, d := range ufs {
		sb.WriteString(d + "\n")
	}
	for _, d := range r.decls {
		sb.WriteString(d + "\n")
	}
	var fs []string
	for f := range r.facts {
		fs = append(fs, f)
	}
	sort.Strings(fs)
	for _, f := range fs {
		sb.WriteString("(assert " + f + ")\n")
	}
	for _, c := range pc {
		sb.WriteString("(assert " + c + ")\n")
	}
	if goal != "" {
		sb.WriteString("(assert (not " + goal + "))\n")
	}
	sb.WriteString("(check-sat)\n")
	return sb.String()
}

// oblige records one query. The script is rendered when all declarations are
// known (finish).
type seqPending struct {
	ob   *Oblig
	pc   []string
	goal string
}

var seqPend = map[*seqRun][]*seqPending{}

func (r *seqRun) oblige(st *seqState, kind, name, goal, where string) {
	r.pathNo++
	ob := &Oblig{Kind: kind, Name: name, Func: r.con.Func, Tags: r.con.Props, Where: where, Goal: mkVar(goal, SBool), Shape: "seq", PathNo: r.pathNo}
	if kind == "seqcover" {
		ob.Expect = "notunsat"
	}
	seqPend[r] = append(seqPend[r], &seqPending{ob, append([]string{}, st.pc...), goal})
}

func (r *seqRun) finish() {
	for _, p := range seqPend[r] {
		p.ob.Raw = r.script(p.pc, p.goal)
		r.res.Obs = append(r.res.Obs, p.ob)
	}
	delete(seqPend, r)
}

// ---- naming -------------------------------------------------------------------

func seqNames(fn *ssa.Function) map[string]ssa.Value {
	names := map[string]ssa.Value{}
	for _, p := range fn.Params {
		names[p.Name()] = p
	}
	posName := map[token.Pos]string{}
	if syn := fn.Syntax(); syn != nil {
		ast.Inspect(syn, func(n ast.Node) bool {
			switch a := n.(type) {
			case *ast.AssignStmt:
				if len(a.Lhs) == len(a.Rhs) {
					for i := range a.Lhs {
						id, ok := a.Lhs[i].(*ast.Ident)
						call, ok2 := a.Rhs[i].(*ast.CallExpr)
						if ok && ok2 {
							posName[call.Lparen] = id.Name
						}
					}
				}
			case *ast.ValueSpec:
				if len(a.Names) == len(a.Values) {
					for i := range a.Names {
						if call, ok := a.Values[i].(*ast.CallExpr); ok {
							posName[call.Lparen] = a.Names[i].Name
						}
					}
				}
			}
			return true
		})
	}
	for _, b := range fn.Blocks {
		for _, ins := range b.Instrs {
			if al, ok := ins.(*ssa.Alloc); ok && al.Comment != "" {
				if _, dup := names[al.Comment]; !dup {
					names[al.Comment] = al
				}
				continue
			}
			if v, ok := ins.(ssa.Value); ok {
				if n, ok := posName[ins.Pos()]; ok && ins.Pos() != token.NoPos {
					if _, dup := names[n]; !dup {
						names[n] = v
					}
				}
			}
		}
	}
	return names
}

func seqHeaders(fn *ssa.Function) map[*ssa.BasicBlock]int {
	hs := map[*ssa.BasicBlock]int{}
	var list []*ssa.BasicBlock
	for _, b := range fn.Blocks {
		for _, s := range b.Succs {
			if s.Dominates(b) {
				if _, ok := hs[s]; !ok {
					hs[s] = 0
					list = append(list, s)
				}
			}
		}
	}
	sort.Slice(list, func(i, j int) bool { return list[i].Index < list[j].Index })
	for i, b := range list {
		hs[b] = i + 1
	}
	return hs
}

// ---- spec evaluation ------------------------------------------------------------

type seqEnv struct {
	r      *seqRun
	st     *seqState
	lookup func(name string) (sv, bool)
	bound  map[string]string
}

func (e *seqEnv) deref(v sv) sv {
	if ref, ok := v.(svRef); ok {
		return e.st.heap[ref.obj]
	}
	return v
}

func (e *seqEnv) eval(n *Node) sv {
	switch n.Kind {
	case "num":
		return svInt{n.Lit}
	case "true":
		return svBool{"true"}
	case "false":
		return svBool{"false"}
	case "ident":
		if b, ok := e.bound[n.Name]; ok {
			return svInt{b}
		}
		if v, ok := e.lookup(n.Name); ok {
			return e.deref(v)
		}
		panic(specPanic{fmt.Sprintf("%s: unknown name %q in seq contract", n.Pos, n.Name)})
	case "sel":
		base := e.eval(n.Kids[0])
		obj, ok := base.(svObj)
		if !ok {
			panic(specPanic{n.Pos + ": selector on a non-struct value"})
		}
		v, ok := e.st.fields[obj.id+"."+n.Name]
		if !ok {
			panic(specPanic{fmt.Sprintf("%s: field %s was not initialised for this scenario", n.Pos, n.Name)})
		}
		return v
	case "unary":
		x := e.eval(n.Kids[0])
		if n.Op == "!" {
			return svBool{"(not " + x.(svBool).t + ")"}
		}
		return svInt{"(- " + x.(svInt).t + ")"}
	case "binary":
		a, b := e.eval(n.Kids[0]), e.eval(n.Kids[1])
		switch n.Op {
		case "&&":
			return svBool{"(and " + a.(svBool).t + " " + b.(svBool).t + ")"}
		case "||":
			return svBool{"(or " + a.(svBool).t + " " + b.(svBool).t + ")"}
		case "==>":
			return svBool{"(=> " + a.(svBool).t + " " + b.(svBool).t + ")"}
		case "<==>":
			return svBool{"(= " + a.(svBool).t + " " + b.(svBool).t + ")"}
		case "+", "-", "*":
			return svInt{"(" + n.Op + " " + a.(svInt).t + " " + b.(svInt).t + ")"}
		case "<", "<=", ">", ">=":
			return svBool{"(" + n.Op + " " + a.(svInt).t + " " + b.(svInt).t + ")"}
		case "==", "!=":
			var t string
			switch x := a.(type) {
			case svInt:
				t = "(= " + x.t + " " + b.(svInt).t + ")"
			case svBool:
				t = "(= " + x.t + " " + b.(svBool).t + ")"
			default:
				panic(specPanic{n.Pos + ": == on sequences: use sameseq"})
			}
			if n.Op == "!=" {
				t = "(not " + t + ")"
			}
			return svBool{t}
		}
	case "index":
		x := e.eval(n.Kids[0])
		i := e.eval(n.Kids[1]).(svInt).t
		switch s := x.(type) {
		case svSeq:
			return svInt{"(select " + s.arr + " " + sadd(s.lo, i) + ")"}
		case svSS:
			return svSeq{"(select " + s.base + " " + i + ")", "(select " + s.lo + " " + i + ")", "(select " + s.hi + " " + i + ")"}
		}
		panic(specPanic{n.Pos + ": index of a non-sequence"})
	case "forall", "exists":
		v := e.r.newName(n.Name)
		old, had := e.bound[n.Name]
		e.bound[n.Name] = v
		body := e.eval(n.Kids[0]).(svBool).t
		if had {
			e.bound[n.Name] = old
		} else {
			delete(e.bound, n.Name)
		}
		return svBool{"(" + n.Kind + " ((" + v + " Int)) " + body + ")"}
	case "call":
		var as []sv
		for _, k := range n.Kids {
			as = append(as, e.eval(k))
		}
		switch n.Name {
		case "len":
			switch s := as[0].(type) {
			case svSeq:
				return svInt{seqLen(s)}
			case svSS:
				return svInt{s.n}
			}
		case "alnum":
			if s, ok := as[0].(svSeq); ok {
				k := e.r.newName("ak")
				return svBool{fmt.Sprintf("(forall ((%s Int)) (=> (and (<= %s %s) (< %s %s)) (alnumr (select %s %s))))", k, s.lo, k, k, s.hi, s.arr, k)}
			}
		case "alnumrune":
			return svBool{"(alnumr " + as[0].(svInt).t + ")"}
		case "isupper":
			return svBool{"(IsUpper " + as[0].(svInt).t + ")"}
		case "islower":
			return svBool{"(IsLower " + as[0].(svInt).t + ")"}
		case "isletter":
			return svBool{"(IsLetter " + as[0].(svInt).t + ")"}
		case "isdigit":
			return svBool{"(IsDigit " + as[0].(svInt).t + ")"}
		case "sameseq":
			a, ok1 := as[0].(svSeq)
			b, ok2 := as[1].(svSeq)
			if ok1 && ok2 {
				return svBool{fmt.Sprintf("(and (= %s %s) (= %s %s) (= %s %s))", a.arr, b.arr, a.lo, b.lo, a.hi, b.hi)}
			}
		}
		panic(specPanic{fmt.Sprintf("%s: %s is not a seq-mode builtin for these arguments", n.Pos, n.Name)})
	}
	panic(specPanic{fmt.Sprintf("%s: construct %s not available in seq contracts", n.Pos, n.Kind)})
}

func (e *seqEnv) evalBool(n *Node) string {
	v, ok := e.eval(n).(svBool)
	if !ok {
		panic(specPanic{n.Pos + ": clause is not a boolean"})
	}
	return v.t
}

// ---- execution --------------------------------------------------------------------

func clauseLabel(cl *Clause, i int) string {
	if cl.Label != "" {
		return cl.Label
	}
	return fmt.Sprint(i)
}

func (w *World) seqContractFor(fn *ssa.Function) *Contract {
	if fn.Pkg == nil {
		return nil
	}
	name := fn.Name()
	if recv := fn.Signature.Recv(); recv != nil {
		t := recv.Type()
		ptr := ""
		if p, ok := t.(*types.Pointer); ok {
			t = p.Elem()
			ptr = "*"
		}
		if nt, ok := t.(*types.Named); ok {
			name = "(" + ptr + nt.Obj().Name() + ")." + fn.Name()
		}
	}
	for _, c := range w.specs.Contracts {
		if _, ok := c.option("seq"); !ok {
			continue
		}
		if c.target() == name && strings.HasSuffix(fn.Pkg.Pkg.Path(), c.Pkg) {
			return c
		}
	}
	return nil
}

var (
	seqAxiomOnce sync.Once
	seqAxiomOK   bool
	seqAxiomWhy  string
)

func (w *World) verifySeq(con *Contract, fn *ssa.Function, res *FuncResult) {
	seqAxiomOnce.Do(func() { seqAxiomOK, seqAxiomWhy = seqAxiomsHold() })
	if !seqAxiomOK {
		res.Errors = append(res.Errors, "a library axiom of the sequence mode is false for this toolchain's unicode tables: "+seqAxiomWhy)
		return
	}
	res.Assumption = append(res.Assumption,
		"sequence mode ("+con.Func+"): a string is modelled as the sequence of runes it decodes to ([]rune(s) and string(r) are the identity on it; every rune is a valid scalar value); len(s) in bytes is only known to lie in [runes, 4*runes]",
		"sequence mode: library axioms IsUpper(r)=>IsLetter(r), IsLower(r)=>IsLetter(r), (IsLetter(r)||IsDigit(r))=>(IsLetter(ToUpper(r))||IsDigit(ToUpper(r))) — validated on every run for all 1,114,112 code points against the unicode tables of the Go toolchain that built govc (the toolchain that builds /repo); unicode.Is*/To* are otherwise uninterpreted; the classes of the runes of string literals are computed with the same tables",
		"sequence mode: int arithmetic is mathematical (the integers involved are indices and lengths of slices, bounded by the length of the input); no overflow obligation is generated",
		"sequence mode: strings.Builder.WriteString appends and never fails; strings.EqualFold, strings.TrimSuffix, filepath.Base and other library calls on values return unknown results; termination of the loops is not proved",
	)
	for _, rq := range con.clauses("requires") {
		if hasTag(rq.Tags, "config") {
			res.Assumption = append(res.Assumption, "precondition of "+con.Func+" on configuration input, not discharged at the callers in the generator: "+rq.Raw)
		}
	}
	r := &seqRun{w: w, con: con, res: res, declSet: map[string]bool{}, ufs: map[string]string{}, facts: map[string]bool{}, safetyN: map[string]int{}}
	defer func() {
		if p := recover(); p != nil {
			switch e := p.(type) {
			case seqPanic:
				res.Errors = append(res.Errors, e.msg)
				res.Stats.Unsupported[e.msg]++
			case specPanic:
				res.Errors = append(res.Errors, "spec: "+e.msg)
			default:
				panic(p)
			}
			// a contract that cannot be evaluated is undecided as a whole
			delete(seqPend, r)
			res.Obs = nil
			return
		}
		r.finish()
		res.Stats.Paths = 0
	}()
	st := &seqState{env: map[ssa.Value]sv{}, heap: map[int]sv{}, fields: map[string]sv{}}
	for _, p := range fn.Params {
		st.env[p] = r.paramValue(st, p.Type(), p.Name())
	}
	fr := &seqFrame{fn: fn, con: con, names: seqNames(fn), headers: seqHeaders(fn)}
	pre := r.envFor(fr, st, nil, nil)
	for _, rq := range con.clauses("requires") {
		st.pc = append(st.pc, pre.evalBool(rq.Expr))
	}
	r.oblige(st, "seqcover", con.Func+"/requires-satisfiable", "", con.Pos)
	fr.ret = func(st2 *seqState, results []sv) {
		r.paths++
		env := r.envFor(fr, st2, nil, results)
		for i, en := range con.clauses("ensures") {
			r.oblige(st2, "ensures", con.Func+"/ensures#"+clauseLabel(en, i), env.evalBool(en.Expr), en.Pos)
		}
	}
	r.exec(fr, st, fn.Blocks[0], 0, nil)
	res.Stats.Shapes = 1
}

// paramValue builds the symbolic value of an input, initialising the fields of
// a struct behind a pointer.
func (r *seqRun) paramValue(st *seqState, t types.Type, name string) sv {
	v := r.freshOf(st, t, name)
	if obj, ok := v.(svObj); ok {
		stt := t.Underlying().(*types.Pointer).Elem().Underlying().(*types.Struct)
		for i := 0; i < stt.NumFields(); i++ {
			f := stt.Field(i)
			st.fields[obj.id+"."+f.Name()] = r.freshOf(st, f.Type(), name+"_"+f.Name())
		}
	}
	return v
}

func (r *seqRun) envFor(fr *seqFrame, st *seqState, phis map[string]sv, results []sv) *seqEnv {
	return &seqEnv{r: r, st: st, bound: map[string]string{}, lookup: func(name string) (sv, bool) {
		if results != nil && (name == "result" || name == "result0") && len(results) > 0 {
			return results[0], true
		}
		if phis != nil {
			if v, ok := phis[name]; ok {
				return v, true
			}
		}
		if v, ok := fr.names[name]; ok {
			if x, ok := st.env[v]; ok {
				return x, true
			}
		}
		return nil, false
	}}
}

func (r *seqRun) val(st *seqState, v ssa.Value) sv {
	if c, ok := v.(*ssa.Const); ok {
		t := c.Type()
		if c.Value == nil {
			switch {
			case isSST(t):
				x := svSS{r.newArr2("nilB"), r.newArr("nilLo"), r.newArr("nilHi"), "0"}
				return x
			case isSeqT(t):
				return svSeq{r.newArr("nilA"), "0", "0"}
			}
			return svOpaque{"nil"}
		}
		switch c.Value.Kind() {
		case constant.Int:
			n, ok := constant.Int64Val(c.Value)
			if !ok {
				seqUnsupported("integer constant out of range")
			}
			return svInt{snum(n)}
		case constant.Bool:
			if constant.BoolVal(c.Value) {
				return svBool{"true"}
			}
			return svBool{"false"}
		case constant.String:
			return r.literal(st, constant.StringVal(c.Value))
		}
		seqUnsupported("constant %s", c.String())
	}
	x, ok := st.env[v]
	if !ok {
		seqUnsupported("value %s (%T) not modelled in seq mode", v.Name(), v)
	}
	return x
}

func (r *seqRun) safety(st *seqState, fr *seqFrame, what, goal string, pos token.Pos) {
	key := fr.fn.Name() + "/" + what
	r.safetyN[key]++
	where := r.w.prog.Fset.Position(pos).String()
	r.oblige(st, "safety", fmt.Sprintf("%s/safety#%s", r.con.Func, what), goal, where)
}

func (r *seqRun) invariantFor(fr *seqFrame, ord int) *Clause {
	if fr.con == nil {
		return nil
	}
	want := fmt.Sprintf("loop%d", ord)
	for _, cl := range fr.con.clauses("invariant") {
		if cl.Label == want {
			return cl
		}
	}
	return nil
}

func isBackEdge(from, to *ssa.BasicBlock) bool { return to.Dominates(from) }

func (r *seqRun) exec(fr *seqFrame, st *seqState, b *ssa.BasicBlock, idx int, prev *ssa.BasicBlock) {
	if idx == 0 {
		st.trace = append(st.trace, b.Index)
		if len(st.trace) > 4000 {
			seqUnsupported("path too long in %s", fr.fn.Name())
		}
		// phi inputs along the edge taken
		in := map[*ssa.Phi]sv{}
		if prev != nil {
			for _, ins := range b.Instrs {
				p, ok := ins.(*ssa.Phi)
				if !ok {
					break
				}
				for i, pred := range b.Preds {
					if pred == prev {
						in[p] = r.val(st, p.Edges[i])
					}
				}
			}
		}
		if ord, isHdr := fr.headers[b]; isHdr {
			inv := r.invariantFor(fr, ord)
			if inv == nil {
				seqUnsupported("loop %d of %s needs an invariant (`invariant loop%d: ...`)", ord, fr.fn.Name(), ord)
			}
			named := map[string]sv{}
			for p, v := range in {
				named[p.Comment] = v
			}
			goal := r.envFor(fr, st, named, nil).evalBool(inv.Expr)
			if prev != nil && isBackEdge(prev, b) {
				r.oblige(st, "invariant", fmt.Sprintf("%s/loop%d/invariant-preserved", r.con.Func, ord), goal, inv.Pos)
				return
			}
			r.oblige(st, "invariant", fmt.Sprintf("%s/loop%d/invariant-established", r.con.Func, ord), goal, inv.Pos)
			// havoc: loop-carried values and every object the function created
			hv := map[string]sv{}
			for p := range in {
				v := r.freshOf(st, p.Type(), p.Comment)
				st.env[p] = v
				hv[p.Comment] = v
			}
			var objs []int
			for o := range st.heap {
				objs = append(objs, o)
			}
			sort.Ints(objs)
			for _, o := range objs {
				switch old := st.heap[o].(type) {
				case svSeq:
					st.heap[o] = r.freshSeq(st, "hv")
				case svSS:
					st.heap[o] = r.freshSS(st, "hv")
				case svArr:
					_ = old // a variadic array is written and consumed within one iteration
				}
			}
			st.pc = append(st.pc, r.envFor(fr, st, hv, nil).evalBool(inv.Expr))
			r.oblige(st, "seqcover", fmt.Sprintf("%s/loop%d/invariant-satisfiable", r.con.Func, ord), "", inv.Pos)
		} else {
			for p, v := range in {
				st.env[p] = v
			}
		}
	}
	for i := idx; i < len(b.Instrs); i++ {
		switch ins := b.Instrs[i].(type) {
		case *ssa.Phi:
			if _, ok := st.env[ins]; !ok {
				seqUnsupported("phi %s without incoming value", ins.Name())
			}
		case *ssa.DebugRef:
		case *ssa.If:
			c, ok := r.val(st, ins.Cond).(svBool)
			if !ok {
				seqUnsupported("branch on a value that is not modelled")
			}
			t := st.clone()
			t.pc = append(t.pc, c.t)
			r.exec(fr, t, b.Succs[0], 0, b)
			f := st.clone()
			f.pc = append(f.pc, "(not "+c.t+")")
			r.exec(fr, f, b.Succs[1], 0, b)
			return
		case *ssa.Jump:
			r.exec(fr, st, b.Succs[0], 0, b)
			return
		case *ssa.Return:
			var rs []sv
			for _, x := range ins.Results {
				v := r.val(st, x)
				if ref, ok := v.(svRef); ok {
					v = st.heap[ref.obj]
				}
				rs = append(rs, v)
			}
			fr.ret(st, rs)
			return
		case *ssa.Call:
			if r.call(fr, st, b, i, ins) {
				return // continued by an inlined callee
			}
		default:
			r.step(fr, st, b.Instrs[i])
		}
	}
}

func (r *seqRun) step(fr *seqFrame, st *seqState, instr ssa.Instruction) {
	switch i := instr.(type) {
	case *ssa.Alloc:
		t := i.Type().Underlying().(*types.Pointer).Elem()
		obj := len(st.heap) + 1
		if at, ok := t.Underlying().(*types.Array); ok {
			st.heap[obj] = svArr{make([]sv, at.Len())}
		} else if nt, ok := t.(*types.Named); ok && nt.Obj().Pkg() != nil && nt.Obj().Pkg().Path() == "strings" && nt.Obj().Name() == "Builder" {
			st.heap[obj] = svSeq{r.newArr("sb"), "0", "0"}
		} else {
			seqUnsupported("local of type %s", t)
		}
		st.env[i] = svRef{obj}
	case *ssa.MakeSlice:
		if !isSST(i.Type()) {
			seqUnsupported("make of %s", i.Type())
		}
		n := r.val(st, i.Len).(svInt).t
		r.safety(st, fr, "make-len", "(>= "+n+" 0)", i.Pos())
		x := svSS{r.newArr2("mkB"), r.newArr("mkLo"), r.newArr("mkHi"), n}
		// elements of a fresh slice are empty strings
		st.pc = append(st.pc, fmt.Sprintf("(forall ((mk Int)) (! (= (select %s mk) (select %s mk)) :pattern ((select %s mk))))", x.lo, x.hi, x.hi))
		obj := len(st.heap) + 1
		st.heap[obj] = x
		st.env[i] = svRef{obj}
	case *ssa.FieldAddr:
		obj, ok := r.val(st, i.X).(svObj)
		if !ok {
			seqUnsupported("field of a value that is not an input struct")
		}
		stt := i.X.Type().Underlying().(*types.Pointer).Elem().Underlying().(*types.Struct)
		f := stt.Field(i.Field)
		st.env[i] = svFieldPtr{obj, f.Name(), f.Type()}
	case *ssa.IndexAddr:
		x := r.val(st, i.X)
		idx := r.val(st, i.Index).(svInt).t
		tgt := x
		if ref, ok := x.(svRef); ok {
			tgt = st.heap[ref.obj]
		}
		switch s := tgt.(type) {
		case svSeq:
			r.safety(st, fr, "index", fmt.Sprintf("(and (<= 0 %s) (< %s %s))", idx, idx, seqLen(s)), i.Pos())
			st.env[i] = svElemPtr{x, idx, -1}
		case svSS:
			r.safety(st, fr, "index", fmt.Sprintf("(and (<= 0 %s) (< %s %s))", idx, idx, s.n), i.Pos())
			st.env[i] = svElemPtr{x, idx, -1}
		case svArr:
			c, ok := i.Index.(*ssa.Const)
			if !ok {
				seqUnsupported("symbolic index into a fixed array")
			}
			n, _ := constant.Int64Val(c.Value)
			if n < 0 || int(n) >= len(s.elems) {
				seqUnsupported("array index out of range")
			}
			st.env[i] = svElemPtr{x, idx, int(n)}
		default:
			seqUnsupported("index into %T", tgt)
		}
	case *ssa.Store:
		ep, ok := r.val(st, i.Addr).(svElemPtr)
		if !ok {
			seqUnsupported("store through %T", r.val(st, i.Addr))
		}
		ref, ok := ep.of.(svRef)
		if !ok {
			seqUnsupported("store into a sequence the function did not create")
		}
		v := r.val(st, i.Val)
		switch h := st.heap[ref.obj].(type) {
		case svArr:
			ne := append([]sv{}, h.elems...)
			ne[ep.ci] = v
			st.heap[ref.obj] = svArr{ne}
		case svSS:
			e, ok := v.(svSeq)
			if !ok {
				seqUnsupported("store of %T into a slice of strings", v)
			}
			st.heap[ref.obj] = svSS{"(store " + h.base + " " + ep.idx + " " + e.arr + ")", "(store " + h.lo + " " + ep.idx + " " + e.lo + ")", "(store " + h.hi + " " + ep.idx + " " + e.hi + ")", h.n}
		default:
			seqUnsupported("store into %T", h)
		}
	case *ssa.UnOp:
		switch i.Op {
		case token.NOT:
			st.env[i] = svBool{"(not " + r.val(st, i.X).(svBool).t + ")"}
		case token.SUB:
			st.env[i] = svInt{"(- " + r.val(st, i.X).(svInt).t + ")"}
		case token.MUL:
			switch p := r.val(st, i.X).(type) {
			case svElemPtr:
				tgt := p.of
				if ref, ok := tgt.(svRef); ok {
					tgt = st.heap[ref.obj]
				}
				switch s := tgt.(type) {
				case svSeq:
					st.env[i] = svInt{"(select " + s.arr + " " + sadd(s.lo, p.idx) + ")"}
				case svSS:
					st.env[i] = svSeq{"(select " + s.base + " " + p.idx + ")", "(select " + s.lo + " " + p.idx + ")", "(select " + s.hi + " " + p.idx + ")"}
				case svArr:
					st.env[i] = s.elems[p.ci]
				}
			case svFieldPtr:
				v, ok := st.fields[p.obj.id+"."+p.field]
				if !ok {
					seqUnsupported("field %s of an object created elsewhere", p.field)
				}
				st.env[i] = v
			default:
				seqUnsupported("load through %T", p)
			}
		default:
			seqUnsupported("unary %s", i.Op)
		}
	case *ssa.BinOp:
		x, y := r.val(st, i.X), r.val(st, i.Y)
		switch a := x.(type) {
		case svInt:
			bb, ok := y.(svInt)
			if !ok {
				seqUnsupported("mixed operands")
			}
			switch i.Op {
			case token.ADD, token.SUB, token.MUL:
				st.env[i] = svInt{"(" + i.Op.String() + " " + a.t + " " + bb.t + ")"}
			case token.EQL:
				st.env[i] = svBool{"(= " + a.t + " " + bb.t + ")"}
			case token.NEQ:
				st.env[i] = svBool{"(not (= " + a.t + " " + bb.t + "))"}
			case token.LSS, token.LEQ, token.GTR, token.GEQ:
				st.env[i] = svBool{"(" + i.Op.String() + " " + a.t + " " + bb.t + ")"}
			default:
				seqUnsupported("integer operator %s", i.Op)
			}
		case svBool:
			bb := y.(svBool)
			switch i.Op {
			case token.EQL:
				st.env[i] = svBool{"(= " + a.t + " " + bb.t + ")"}
			case token.NEQ:
				st.env[i] = svBool{"(not (= " + a.t + " " + bb.t + "))"}
			default:
				seqUnsupported("boolean operator %s", i.Op)
			}
		case svSeq:
			bb, ok := y.(svSeq)
			if !ok {
				seqUnsupported("mixed operands")
			}
			switch i.Op {
			case token.ADD:
				st.env[i] = r.concat(st, a, bb)
			case token.EQL, token.NEQ:
				eq := r.seqEqual(st, i.X, i.Y, a, bb)
				if i.Op == token.NEQ {
					eq = "(not " + eq + ")"
				}
				st.env[i] = svBool{eq}
			default:
				seqUnsupported("string operator %s", i.Op)
			}
		default:
			seqUnsupported("operator %s on %T", i.Op, x)
		}
	case *ssa.Convert:
		x := r.val(st, i.X)
		from, to := i.X.Type(), i.Type()
		switch {
		case isSeqT(from) && isSeqT(to):
			st.env[i] = x // string <-> []rune: the same rune sequence (runes are valid scalar values)
		case isIntT(from) && isStringT(to):
			a := r.newArr("r2s")
			st.pc = append(st.pc, "(= (select "+a+" 0) "+x.(svInt).t+")")
			st.env[i] = svSeq{a, "0", "1"}
		case isIntT(from) && isIntT(to):
			st.env[i] = x
		default:
			seqUnsupported("conversion %s -> %s", from, to)
		}
	case *ssa.ChangeType:
		st.env[i] = r.val(st, i.X)
	case *ssa.Slice:
		x := r.val(st, i.X)
		if ref, ok := x.(svRef); ok {
			if arr, ok := st.heap[ref.obj].(svArr); ok && i.Low == nil && i.High == nil {
				st.env[i] = svVar{append([]sv{}, arr.elems...)}
				return
			}
			x = st.heap[ref.obj]
		}
		s, ok := x.(svSeq)
		if !ok {
			seqUnsupported("slice of %T", x)
		}
		lo, hi := s.lo, s.hi
		if i.Low != nil {
			lo = sadd(s.lo, r.val(st, i.Low).(svInt).t)
		}
		if i.High != nil {
			hi = sadd(s.lo, r.val(st, i.High).(svInt).t)
		}
		if i.Max != nil {
			seqUnsupported("three-index slice")
		}
		r.safety(st, fr, "slice-bounds", fmt.Sprintf("(and (<= %s %s) (<= %s %s) (<= %s %s))", s.lo, lo, lo, hi, hi, s.hi), i.Pos())
		st.env[i] = svSeq{s.arr, lo, hi}
	case *ssa.Extract:
		t, ok := r.val(st, i.Tuple).(svTuple)
		if !ok {
			seqUnsupported("extract from %T", r.val(st, i.Tuple))
		}
		st.env[i] = t[i.Index]
	default:
		seqUnsupported("instruction %T (%s) in seq mode", instr, instr)
	}
}

// seqEqual: comparison with a constant is exact; anything else is an unknown boolean.
func (r *seqRun) seqEqual(st *seqState, xv, yv ssa.Value, a, b svSeq) string {
	lit := func(v ssa.Value) (string, bool) {
		c, ok := v.(*ssa.Const)
		if !ok || c.Value == nil || c.Value.Kind() != constant.String {
			return "", false
		}
		return constant.StringVal(c.Value), true
	}
	konst, other := "", a
	if s, ok := lit(yv); ok {
		konst = s
	} else if s, ok := lit(xv); ok {
		konst, other = s, b
	} else {
		return r.newBool("streq")
	}
	rs := []rune(konst)
	parts := []string{fmt.Sprintf("(= %s %d)", seqLen(other), len(rs))}
	for i, c := range rs {
		parts = append(parts, fmt.Sprintf("(= (select %s %s) %d)", other.arr, sadd(other.lo, fmt.Sprint(i)), c))
	}
	if len(parts) == 1 {
		return parts[0]
	}
	return "(and " + strings.Join(parts, " ") + ")"
}

func (r *seqRun) call(fr *seqFrame, st *seqState, b *ssa.BasicBlock, idx int, c *ssa.Call) bool {
	args := c.Call.Args
	if bi, ok := c.Call.Value.(*ssa.Builtin); ok {
		switch bi.Name() {
		case "len":
			x := r.val(st, args[0])
			if ref, ok := x.(svRef); ok {
				x = st.heap[ref.obj]
			}
			switch s := x.(type) {
			case svSeq:
				if isStringT(args[0].Type()) {
					bl := fmt.Sprintf("(blen %s %s %s)", s.arr, s.lo, s.hi)
					n := seqLen(s)
					st.pc = append(st.pc, fmt.Sprintf("(and (>= %s %s) (<= %s (* 4 %s)))", bl, n, bl, n))
					st.env[c] = svInt{bl}
				} else {
					st.env[c] = svInt{seqLen(s)}
				}
			case svSS:
				st.env[c] = svInt{s.n}
			default:
				seqUnsupported("len of %T", x)
			}
		case "append":
			x := r.val(st, args[0])
			if ref, ok := x.(svRef); ok {
				x = st.heap[ref.obj]
			}
			s, ok := x.(svSS)
			more, ok2 := r.val(st, args[1]).(svVar)
			if !ok || !ok2 {
				seqUnsupported("append of this form")
			}
			for _, e := range more.elems {
				q, ok := e.(svSeq)
				if !ok {
					seqUnsupported("append of %T", e)
				}
				s = svSS{"(store " + s.base + " " + s.n + " " + q.arr + ")", "(store " + s.lo + " " + s.n + " " + q.lo + ")", "(store " + s.hi + " " + s.n + " " + q.hi + ")", sadd(s.n, "1")}
			}
			st.env[c] = s
		default:
			seqUnsupported("builtin %s", bi.Name())
		}
		return false
	}
	callee := c.Call.StaticCallee()
	if callee == nil {
		seqUnsupported("dynamic call")
	}
	full := callee.String()
	switch {
	case strings.HasPrefix(full, "unicode.Is") && len(args) == 1:
		name := strings.TrimPrefix(full, "unicode.")
		if !strings.Contains(seqPrelude, "(declare-fun "+name+" ") {
			r.ufs[name] = "(declare-fun " + name + " (Int) Bool)"
		}
		st.env[c] = svBool{"(" + name + " " + r.val(st, args[0]).(svInt).t + ")"}
		return false
	case strings.HasPrefix(full, "unicode.To") && len(args) == 1:
		name := strings.TrimPrefix(full, "unicode.")
		if !strings.Contains(seqPrelude, "(declare-fun "+name+" ") {
			r.ufs[name] = "(declare-fun " + name + " (Int) Int)"
		}
		st.env[c] = svInt{"(" + name + " " + r.val(st, args[0]).(svInt).t + ")"}
		return false
	case full == "(*strings.Builder).WriteString" || full == "(*strings.Builder).WriteRune":
		ref, ok := r.val(st, args[0]).(svRef)
		if !ok {
			seqUnsupported("builder that the function did not create")
		}
		cur := st.heap[ref.obj].(svSeq)
		var add svSeq
		if strings.HasSuffix(full, "WriteRune") {
			a := r.newArr("wr")
			st.pc = append(st.pc, "(= (select "+a+" 0) "+r.val(st, args[1]).(svInt).t+")")
			add = svSeq{a, "0", "1"}
		} else {
			add = r.val(st, args[1]).(svSeq)
		}
		st.heap[ref.obj] = r.concat(st, cur, add)
		st.env[c] = svTuple{svInt{r.newInt("wn")}, svOpaque{"nil error"}}
		return false
	case full == "(*strings.Builder).String":
		ref, ok := r.val(st, args[0]).(svRef)
		if !ok {
			seqUnsupported("builder that the function did not create")
		}
		st.env[c] = st.heap[ref.obj]
		return false
	}
	if con := r.w.seqContractFor(callee); con != nil && callee != fr.fn {
		// modular rule: assert requires, fresh result, assume ensures
		r.res.Stats.ByContract[full]++
		cst := st
		bind := map[string]sv{}
		for k, p := range callee.Params {
			bind[p.Name()] = r.val(st, args[k])
		}
		look := func(results []sv) *seqEnv {
			return &seqEnv{r: r, st: cst, bound: map[string]string{}, lookup: func(name string) (sv, bool) {
				if results != nil && (name == "result" || name == "result0") {
					return results[0], true
				}
				v, ok := bind[name]
				return v, ok
			}}
		}
		for k, rq := range con.clauses("requires") {
			r.oblige(st, "requires", fmt.Sprintf("%s/call:%s/requires#%s", r.con.Func, con.target(), clauseLabel(rq, k)), look(nil).evalBool(rq.Expr), r.w.prog.Fset.Position(c.Pos()).String())
		}
		var results []sv
		sig := callee.Signature.Results()
		for k := 0; k < sig.Len(); k++ {
			results = append(results, r.freshOf(st, sig.At(k).Type(), "ret"))
		}
		for _, en := range con.clauses("ensures") {
			st.pc = append(st.pc, look(results).evalBool(en.Expr))
		}
		if len(results) == 1 {
			st.env[c] = results[0]
		} else {
			st.env[c] = svTuple(results)
		}
		return false
	}
	inRepo := callee.Pkg != nil && strings.HasPrefix(callee.Pkg.Pkg.Path(), r.w.modPath)
	if inRepo && len(callee.Blocks) > 0 && fr.depth < 3 && len(seqHeaders(callee)) == 0 {
		// small loop-free helper without a contract: inlined
		r.res.Stats.Inlined[full]++
		for k, p := range callee.Params {
			st.env[p] = r.val(st, args[k])
		}
		nf := &seqFrame{fn: callee, names: seqNames(callee), headers: map[*ssa.BasicBlock]int{}, depth: fr.depth + 1}
		nf.ret = func(st2 *seqState, results []sv) {
			if len(results) == 1 {
				st2.env[c] = results[0]
			} else {
				st2.env[c] = svTuple(results)
			}
			r.exec(fr, st2, b, idx+1, nil)
		}
		r.exec(nf, st, callee.Blocks[0], 0, nil)
		return true
	}
	if inRepo {
		seqUnsupported("call to %s: it has loops and no seq contract", full)
	}
	// library function: unknown result, provided it cannot write through its arguments
	for _, a := range args {
		switch r.val(st, a).(type) {
		case svInt, svBool, svSeq, svSS, svOpaque:
		default:
			seqUnsupported("library call %s with a reference argument", full)
		}
	}
	r.res.Stats.Havocked[full]++
	st.env[c] = r.freshOf(st, callee.Signature.Results(), "lib")
	if t, ok := st.env[c].(svTuple); ok && len(t) == 1 {
		st.env[c] = t[0]
	}
	return false
}
