// mutgen lists small syntactic mutants of the files given on the command line
// (paths relative to the repository root given by -root) as JSON lines:
// {"id","file","func","kind","start","end","old","new","line"}.
// It is a measuring instrument for the checks (tools/mutcampaign.py), not a check.
package main

import (
	"encoding/json"
	"flag"
	"fmt"
	"go/ast"
	"go/parser"
	"go/token"
	"os"
	"path/filepath"
	"strconv"
	"strings"
)

type Mut struct {
	ID    string `json:"id"`
	File  string `json:"file"`
	Func  string `json:"func"`
	Kind  string `json:"kind"`
	Start int    `json:"start"`
	End   int    `json:"end"`
	Old   string `json:"old"`
	New   string `json:"new"`
	Line  int    `json:"line"`
}

var swaps = map[token.Token][]string{
	token.LSS: {"<="}, token.LEQ: {"<"}, token.GTR: {">="}, token.GEQ: {">"},
	token.EQL: {"!="}, token.NEQ: {"=="}, token.LAND: {"||"}, token.LOR: {"&&"},
	token.ADD: {"-"}, token.SUB: {"+"},
}

func main() {
	root := flag.String("root", "/repo", "")
	flag.Parse()
	enc := json.NewEncoder(os.Stdout)
	n := 0
	for _, rel := range flag.Args() {
		path := filepath.Join(*root, rel)
		src, err := os.ReadFile(path)
		if err != nil {
			fmt.Fprintln(os.Stderr, err)
			os.Exit(2)
		}
		fset := token.NewFileSet()
		f, err := parser.ParseFile(fset, path, src, 0)
		if err != nil {
			fmt.Fprintln(os.Stderr, err)
			os.Exit(2)
		}
		off := func(p token.Pos) int { return fset.Position(p).Offset }
		emit := func(fn, kind string, s, e int, nw string) {
			n++
			enc.Encode(Mut{ID: fmt.Sprintf("m%04d", n), File: rel, Func: fn, Kind: kind, Start: s, End: e, Old: string(src[s:e]), New: nw, Line: fset.Position(fset.File(f.Pos()).Pos(s)).Line})
		}
		for _, d := range f.Decls {
			fd, ok := d.(*ast.FuncDecl)
			if !ok || fd.Body == nil {
				continue
			}
			name := fd.Name.Name
			if fd.Recv != nil && len(fd.Recv.List) == 1 {
				t := fd.Recv.List[0].Type
				star := ""
				if se, ok := t.(*ast.StarExpr); ok {
					t = se.X
					star = "*"
				}
				if id, ok := t.(*ast.Ident); ok {
					name = "(" + star + id.Name + ")." + name
				}
			}
			ast.Inspect(fd.Body, func(nd ast.Node) bool {
				switch x := nd.(type) {
				case *ast.BinaryExpr:
					for _, nw := range swaps[x.Op] {
						if x.Op == token.ADD || x.Op == token.SUB {
							// skip string concatenation and such: only mutate when an operand is a number literal
							isNum := func(e ast.Expr) bool { b, ok := e.(*ast.BasicLit); return ok && (b.Kind == token.INT || b.Kind == token.FLOAT) }
							if !isNum(x.X) && !isNum(x.Y) {
								continue
							}
						}
						s := off(x.OpPos)
						emit(name, "binop", s, s+len(x.Op.String()), nw)
					}
				case *ast.IfStmt:
					s, e := off(x.Cond.Pos()), off(x.Cond.End())
					emit(name, "negate-if", s, e, "!("+string(src[s:e])+")")
				case *ast.BasicLit:
					switch x.Kind {
					case token.INT:
						if v, err := strconv.Atoi(x.Value); err == nil && v >= 0 && v <= 64 {
							s := off(x.Pos())
							emit(name, "int+1", s, s+len(x.Value), strconv.Itoa(v+1))
							if v > 0 {
								emit(name, "int-1", s, s+len(x.Value), strconv.Itoa(v-1))
							}
						}
					case token.STRING:
						// operators inside emitted-code templates
						s := off(x.Pos())
						for _, pr := range [][2]string{{" < ", " <= "}, {" <= ", " < "}, {" > ", " >= "}, {" >= ", " > "}, {" == ", " != "}, {" != ", " == "}, {" && ", " || "}, {" || ", " && "}, {"!ok", "ok"}} {
							from := 0
							for {
								i := strings.Index(x.Value[from:], pr[0])
								if i < 0 {
									break
								}
								p := s + from + i
								emit(name, "template-op", p, p+len(pr[0]), pr[1])
								from += i + len(pr[0])
							}
						}
					}
				case *ast.Ident:
					if x.Name == "true" || x.Name == "false" {
						s := off(x.Pos())
						nw := "true"
						if x.Name == "true" {
							nw = "false"
						}
						emit(name, "bool-flip", s, s+len(x.Name), nw)
					}
				case *ast.ExprStmt:
					if _, ok := x.X.(*ast.CallExpr); ok {
						s, e := off(x.Pos()), off(x.End())
						emit(name, "drop-call", s, e, "")
					}
				case *ast.AssignStmt:
					// x = append(x, ...) / field assignment dropped
					if x.Tok == token.ASSIGN && len(x.Lhs) == 1 {
						s, e := off(x.Pos()), off(x.End())
						emit(name, "drop-assign", s, e, "")
					}
				case *ast.CallExpr:
					// swap two adjacent arguments (the compiler rejects ill-typed ones)
					for i := 0; i+1 < len(x.Args); i++ {
						a, b := x.Args[i], x.Args[i+1]
						s, e := off(a.Pos()), off(b.End())
						as, bs := string(src[off(a.Pos()):off(a.End())]), string(src[off(b.Pos()):off(b.End())])
						if as == bs {
							continue
						}
						mid := string(src[off(a.End()):off(b.Pos())])
						emit(name, "swap-args", s, e, bs+mid+as)
					}
				case *ast.ReturnStmt:
					// `return ..., err` -> `return ..., nil` (error swallowed)
					if k := len(x.Results); k >= 1 {
						if id, ok := x.Results[k-1].(*ast.Ident); ok && (id.Name == "err" || strings.HasSuffix(id.Name, "err") || strings.HasSuffix(id.Name, "Err")) {
							s := off(id.Pos())
							emit(name, "return-nil-err", s, s+len(id.Name), "nil")
						}
					}
				}
				return true
			})
		}
	}
}
