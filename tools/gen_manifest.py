#!/usr/bin/env python3
"""Regenerates /verif/MANIFEST.json from the table below (kept in one place so the
claims, levels and not-applicable reasons stay consistent with DESIGN.md)."""
import json, os, subprocess

HERE = os.path.dirname(os.path.dirname(os.path.abspath(__file__)))

COMMON_NOTE = ("Trusted: x/tools go/ssa + go/types, the govc engine (symbolic executor, contract evaluator, stage-2 translator), "
               "the SMT solvers; float64 modelled as the real number it denotes (comparisons exact; +/-1.0 exact only for integral operands, "
               "tie zone 2^53..2^54 excluded by a stated bound); generator-side int arithmetic mathematical; assumed contracts (engine models) of "
               "fmt/strings/math functions as listed in the evidence. Composition of the proved leaf contracts through the generator's glue "
               "(generate* recursion, decl caches) is argued in DESIGN.md, not machine-checked.")

CLAIMS = {
    # id: (level text, extra note, technique, design_ref)
}

NOT_APPLICABLE = {
    # id: reason
}


def load_tables():
    import importlib.util
    spec = importlib.util.spec_from_file_location("claims", os.path.join(HERE, "tools", "claims.py"))
    m = importlib.util.module_from_spec(spec)
    spec.loader.exec_module(m)
    return m.CLAIMS, m.NOT_APPLICABLE


def main():
    claims, na = load_tables()
    props = [json.loads(l)["id"] for l in open(os.path.join(HERE, "properties.jsonl"))]
    assert set(claims) | set(na) == set(props), (set(props) - set(claims) - set(na), (set(claims) | set(na)) - set(props))
    assert not (set(claims) & set(na))
    commits = subprocess.run(["git", "-C", "/repo", "log", "--format=%h %s"], capture_output=True, text=True).stdout.splitlines()
    hook_commits = [c.split()[0] for c in commits if c.split(" ", 1)[1].startswith("verif:")]
    checks = []
    for pid in props:
        if pid not in claims:
            continue
        c = claims[pid]
        checks.append({
            "property_id": pid,
            "quick_cmd": f"./verif.sh check {pid} quick",
            "thorough_cmd": f"./verif.sh check {pid} thorough",
            "evidence_file": f"/verif/evidence/{pid}.json",
            "replay_cmd_template": "./verif.sh replay {path}",
            "engine": "govc",
            "level_claimed": {"category": c.get("category", "proof"), "text": c["level"], "design_ref": c.get("design_ref", "DESIGN.md §6")},
            "level_note": c["note"] + " " + COMMON_NOTE,
            "technique": c["technique"],
        })
    manifest = {
        "version": 1,
        "setup_cmd": "cd /verif/engine && GOFLAGS=-mod=mod GOPROXY=off GOSUMDB=off GOTOOLCHAIN=local go build -o /verif/bin/govc . && cd /verif/e2e && GOWORK=off GOFLAGS=-mod=mod GOPROXY=off GOSUMDB=off GOTOOLCHAIN=local go build -o /verif/bin/e2egen . ; test -x /verif/bin/govc",
        "hooks": {
            "guard": "verif",
            "enable": "-tags verif (informational: the hook files are comment-only contract files `contracts_verif.go`; govc reads them as text from /repo's working tree, nothing is compiled differently)",
            "baseline_off_cmd": "cd /repo && go test -json -vet=off -count=1 -timeout 25m ./... ; cd /repo/tests && go test -json -vet=off -count=1 -timeout 25m ./...",
            "source_commits": hook_commits,
            "add_only": True,
        },
        "engines": [{
            "name": "govc", "path": "/verif/engine",
            "serves_properties": [p for p in props if p in claims],
            "kind_free_text": "contract-based deductive verifier for Go written for this task: //@ contracts in /repo/**/contracts_verif.go (build tag verif), VC generation by forward symbolic execution over go/ssa of /repo's working tree (modular call rule, frames, loop invariants), stage-2 translation of emitted Go fragments, obligations discharged by z3-new 5.1.0 / z3 4.8.12 / cvc5 1.0.3, counterexamples replayed on the real code (go test -overlay / end-to-end through the real generator)",
        }],
        "checks": checks,
        "notes": "See DESIGN.md. Known findings and fixed defects: KNOWN_FINDINGS.txt. Seeded property-breaking changes and which check catches them: seeded/ and DESIGN.md §14.",
        "not_applicable": [{"property_id": p, "reason": na[p]} for p in props if p in na],
    }
    with open(os.path.join(HERE, "MANIFEST.json"), "w") as f:
        json.dump(manifest, f, indent=1)
        f.write("\n")
    print("MANIFEST.json:", len(checks), "checks,", len(na), "not applicable")


if __name__ == "__main__":
    main()
