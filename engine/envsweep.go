package main

// Environment sweep (C12): the emitted bytes may depend on the CONTENT of the
// schema documents and on the options only. Every call, anywhere in the module's
// non-test code, of a library function whose result depends on something else —
// the working directory, the absolute location of a file, the clock, the
// process, random numbers, the environment — is an obligation: it must be listed
// for its enclosing function by an `envdep <callee>...: reason` clause in a
// contract file (the reason says why the value cannot reach the output). A new
// call site fails the obligation. Abstract-mode obligation over go/ssa, one per
// call site; no solver, hence no model.

import (
	"fmt"
	"go/token"
	"go/types"
	"sort"
	"strings"

	"golang.org/x/tools/go/ssa"
	"golang.org/x/tools/go/ssa/ssautil"
)

var envDependent = map[string]bool{
	"os.Getwd": true, "os.Hostname": true, "os.Getenv": true, "os.LookupEnv": true, "os.Environ": true, "os.ExpandEnv": true,
	"os.Getpid": true, "os.Getppid": true, "os.Getuid": true, "os.Executable": true, "os.UserHomeDir": true, "os.UserCacheDir": true,
	"os.UserConfigDir": true, "os.TempDir": true, "os.MkdirTemp": true, "os.CreateTemp": true, "os.ReadDir": true,
	"time.Now": true, "time.Since": true, "time.Until": true,
	"path/filepath.Abs": true, "path/filepath.Dir": true, "path/filepath.EvalSymlinks": true, "path/filepath.Rel": true,
	"path/filepath.Split": true, "path/filepath.VolumeName": true, "path/filepath.Glob": true, "path/filepath.Walk": true, "path/filepath.WalkDir": true,
	"path.Dir": true, "path.Split": true,
	"runtime.NumCPU": true, "runtime.GOMAXPROCS": true, "runtime.Caller": true, "runtime.Callers": true, "runtime.NumGoroutine": true,
	"os/user.Current": true,
}

func envDependentCallee(n string) bool {
	if envDependent[n] {
		return true
	}
	return strings.HasPrefix(n, "math/rand.") || strings.HasPrefix(n, "math/rand/v2.") || strings.HasPrefix(n, "crypto/rand.") ||
		strings.HasPrefix(n, "(*math/rand.Rand).") || strings.HasPrefix(n, "(*math/rand/v2.Rand).")
}

func (w *World) envSweep(id string, opts *RunOpts, ex *Extra) {
	// allowed: function (as written in the contract file, by package) -> callee short names
	allowed := map[string]map[string]string{}
	for _, c := range w.specs.Contracts {
		for _, cl := range c.clauses("envdep") {
			raw := cl.Raw
			reason := ""
			if i := strings.Index(raw, ":"); i >= 0 {
				raw, reason = raw[:i], strings.TrimSpace(raw[i+1:])
			}
			key := c.Pkg + ":" + c.target()
			if allowed[key] == nil {
				allowed[key] = map[string]string{}
			}
			for _, f := range strings.Fields(raw) {
				allowed[key][f] = reason
			}
		}
	}
	var fns []*ssa.Function
	for fn := range ssautil.AllFunctions(w.prog) {
		if fn.Blocks == nil || fn.Synthetic != "" {
			continue
		}
		p := fnPkgPath(fn)
		if fn.Pkg == nil && fn.Parent() != nil {
			p = fnPkgPath(fn.Parent())
		}
		if p == w.modPath || strings.HasPrefix(p, w.modPath+"/pkg/") || strings.HasPrefix(p, w.modPath+"/internal/") {
			fns = append(fns, fn)
		}
	}
	sort.Slice(fns, func(i, j int) bool { return fns[i].String() < fns[j].String() })
	sites, listed := 0, 0
	var table []interface{}
	for _, fn := range fns {
		pkg := strings.TrimPrefix(strings.TrimPrefix(fnPkgPath(fn), w.modPath), "/")
		if fn.Pkg == nil && fn.Parent() != nil {
			pkg = strings.TrimPrefix(strings.TrimPrefix(fnPkgPath(fn.Parent()), w.modPath), "/")
		}
		short := shortFn(fn.String())
		// contract files name functions without the package qualifier
		bare := short
		if i := strings.LastIndex(bare, "/"); i >= 0 {
			bare = bare[i+1:]
		}
		for _, b := range fn.Blocks {
			for _, ins := range b.Instrs {
				var common *ssa.CallCommon
				switch c := ins.(type) {
				case *ssa.Call:
					common = &c.Call
				case *ssa.Go:
					common = &c.Call
				case *ssa.Defer:
					common = &c.Call
				}
				if common == nil {
					continue
				}
				callee := common.StaticCallee()
				if callee == nil {
					continue
				}
				n := callee.String()
				if !envDependentCallee(n) {
					continue
				}
				sites++
				ex.Count++
				cs := n[strings.LastIndex(n, ".")+1:]
				name := fmt.Sprintf("%s/env-dependence:%s", short, n)
				ok := false
				why := ""
				for key, m := range allowed {
					kp := strings.SplitN(key, ":", 2)
					if kp[0] != pkg {
						continue
					}
					if fnNameMatches(kp[1], fn) {
						if r, has := m[cs]; has {
							ok, why = true, r
						}
					}
				}
				if ok {
					listed++
					ex.Discharged++
					table = append(table, map[string]interface{}{"site": name, "listed_because": why})
					continue
				}
				p := w.prog.Fset.Position(ins.Pos())
				msg := fmt.Sprintf("%s calls %s at %s:%d; its result depends on the environment (working directory, location of the schema directory, clock, process, randomness), and no `envdep %s: <reason>` clause lists this site — the output is no longer a function of schema content and options alone", short, n, strings.TrimPrefix(p.Filename, w.repo+"/"), p.Line, cs)
				path := writeTextReplay(opts, id, name, msg+"\n(abstract-mode obligation over go/ssa)", "", "", "bin/govc check "+id)
				ex.Lines = append(ex.Lines, fmt.Sprintf("VIOLATION property=%s replay=%s no-failing-input-found", id, path))
				ex.Lines = append(ex.Lines, "  failed obligation: "+name+": "+msg)
				ex.Violations++
			}
		}
		_ = bare
	}
	ex.Coverage["environment_sweep"] = map[string]interface{}{"environment_dependent_call_sites": sites, "listed_with_reason": listed, "sites": table,
		"watched": "os.Getwd/Hostname/Getenv/…, time.Now/Since, filepath.Abs/Dir/EvalSymlinks/Rel/Split/Glob/Walk, path.Dir/Split, math/rand, crypto/rand, runtime.NumCPU/Caller, os/user.Current"}
}

// fnNameMatches: does the contract-file spelling ("(*T).M", "F", "F$1") name fn?
func fnNameMatches(spec string, fn *ssa.Function) bool {
	name := fn.Name()
	if recv := fn.Signature.Recv(); recv != nil {
		s := recv.Type().String()
		ptr := strings.HasPrefix(s, "*")
		if i := strings.LastIndex(s, "."); i >= 0 {
			s = s[i+1:]
		}
		if ptr {
			name = "(*" + s + ")." + fn.Name()
		} else {
			name = "(" + s + ")." + fn.Name()
		}
	}
	return spec == name
}

// deferredErrorStores (C18): a deferred function that assigns to the enclosing
// function's error result (`defer func() { err = f.Close() }()`) runs after the
// result has been set; unless the assignment only happens when the result is
// still nil, an earlier error — a failed write, say — is replaced by the later
// call's nil and the run reports success. Every store of a deferred closure into
// a captured error variable must sit behind a test that the variable is nil.
// Abstract-mode obligation over go/ssa, one per store.
func (w *World) deferredErrorStores(id string, opts *RunOpts, ex *Extra) {
	var fns []*ssa.Function
	for fn := range ssautil.AllFunctions(w.prog) {
		if fn.Blocks == nil || fn.Synthetic != "" || fn.Parent() == nil {
			continue
		}
		p := fnPkgPath(fn.Parent())
		for q := fn.Parent(); q != nil; q = q.Parent() {
			if q.Pkg != nil {
				p = fnPkgPath(q)
			}
		}
		if p == w.modPath || strings.HasPrefix(p, w.modPath+"/pkg/") || strings.HasPrefix(p, w.modPath+"/internal/") {
			fns = append(fns, fn)
		}
	}
	sort.Slice(fns, func(i, j int) bool { return fns[i].String() < fns[j].String() })
	isDeferred := func(cl *ssa.Function) bool {
		par := cl.Parent()
		for _, b := range par.Blocks {
			for _, ins := range b.Instrs {
				d, ok := ins.(*ssa.Defer)
				if !ok {
					continue
				}
				if mc, ok := d.Call.Value.(*ssa.MakeClosure); ok && mc.Fn == cl {
					return true
				}
				if f, ok := d.Call.Value.(*ssa.Function); ok && f == cl {
					return true
				}
			}
		}
		return false
	}
	sites, guarded := 0, 0
	for _, cl := range fns {
		if !isDeferred(cl) {
			continue
		}
		k := 0
		for _, b := range cl.Blocks {
			for _, ins := range b.Instrs {
				st, ok := ins.(*ssa.Store)
				if !ok {
					continue
				}
				fv, ok := st.Addr.(*ssa.FreeVar)
				if !ok {
					continue
				}
				pt, ok := fv.Type().Underlying().(*types.Pointer)
				if !ok || pt.Elem().String() != "error" {
					continue
				}
				if c, isConst := st.Val.(*ssa.Const); isConst && c.Value == nil {
					continue // clearing the error is not what this is about
				}
				sites++
				ex.Count++
				name := fmt.Sprintf("%s/deferred-store-keeps-an-earlier-error#%d", shortFn(cl.String()), k)
				k++
				// guarded: some dominator block ends in `if *fv == nil` and b is reached through its true edge
				ok2 := false
				for _, d := range cl.Blocks {
					iff, isIf := d.Instrs[len(d.Instrs)-1].(*ssa.If)
					if !isIf || !d.Dominates(b) || d == b {
						continue
					}
					bo, isB := iff.Cond.(*ssa.BinOp)
					if !isB || (bo.Op != token.EQL && bo.Op != token.NEQ) {
						continue
					}
					isLoadOfFV := func(v ssa.Value) bool {
						u, ok := v.(*ssa.UnOp)
						return ok && u.Op == token.MUL && u.X == ssa.Value(fv)
					}
					isNil := func(v ssa.Value) bool {
						c, ok := v.(*ssa.Const)
						return ok && c.Value == nil
					}
					if !(isLoadOfFV(bo.X) && isNil(bo.Y)) && !(isLoadOfFV(bo.Y) && isNil(bo.X)) {
						continue
					}
					succ := d.Succs[0]
					if bo.Op == token.NEQ {
						succ = d.Succs[1]
					}
					if (succ == b || succ.Dominates(b)) && len(succ.Preds) == 1 {
						ok2 = true
					}
				}
				if ok2 {
					guarded++
					ex.Discharged++
					continue
				}
				p := w.prog.Fset.Position(st.Pos())
				msg := fmt.Sprintf("the deferred function %s assigns to the captured error variable %s at %s:%d without testing that it is still nil: an error set before the function returned (a failed write) is replaced by this later value, and the caller sees success", shortFn(cl.String()), fv.Name(), strings.TrimPrefix(p.Filename, w.repo+"/"), p.Line)
				path := writeTextReplay(opts, id, name, msg+"\n(abstract-mode obligation over go/ssa)", "", "", "bin/govc check "+id)
				ex.Lines = append(ex.Lines, fmt.Sprintf("VIOLATION property=%s replay=%s no-failing-input-found", id, path))
				ex.Lines = append(ex.Lines, "  failed obligation: "+name+": "+msg)
				ex.Violations++
			}
		}
	}
	ex.Coverage["deferred_error_stores"] = map[string]interface{}{"stores_into_a_captured_error_by_deferred_functions": sites, "behind_a_nil_test": guarded}
}
