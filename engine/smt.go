package main

// SMT-LIB generation, solver race, model parsing.

import (
	"context"
	"fmt"
	"math/big"
	"os"
	"os/exec"
	"path/filepath"
	"sort"
	"strings"
	"sync"
	"time"
)

type SolveResult struct {
	Status  string // unsat sat unknown timeout error
	Solver  string
	Seconds float64
	Model   map[string]*T
	Raw     string
	Agree   []string // thorough: solvers that answered unsat
	Retried bool     // answered only in the second, longer pass
}

var solverCmds = map[string][]string{
	"z3-new": {"z3-new", "-smt2"},
	"z3":     {"z3", "-smt2"},
	"cvc5":   {"cvc5", "--lang=smt2", "--produce-models"},
}

func script(assume []*T, goal *T, extraDecl string) string {
	vars := map[string]Sort{}
	for _, a := range assume {
		freeVars(a, vars)
	}
	freeVars(goal, vars)
	var sb strings.Builder
	sb.WriteString("(set-option :produce-models true)\n(set-logic ALL)\n")
	sb.WriteString(extraDecl)
	ufs := map[string]string{}
	for _, a := range assume {
		collectUFs(a, ufs)
	}
	collectUFs(goal, ufs)
	var ufNames []string
	for n := range ufs {
		ufNames = append(ufNames, n)
	}
	sort.Strings(ufNames)
	for _, n := range ufNames {
		sb.WriteString(ufs[n])
	}
	for _, n := range sortedVarNames(vars) {
		fmt.Fprintf(&sb, "(declare-const %s %s)\n", smtName(n), vars[n])
	}
	for _, a := range assume {
		sb.WriteString("(assert ")
		a.write(&sb)
		sb.WriteString(")\n")
	}
	sb.WriteString("(assert (not ")
	goal.write(&sb)
	sb.WriteString("))\n(check-sat)\n(get-model)\n")
	return sb.String()
}

// collectUFs declares the uninterpreted functions used by a term.
func collectUFs(t *T, into map[string]string) {
	if t.Op == "gomod" || strings.HasPrefix(t.Op, "uf_") {
		var as []string
		for _, a := range t.Args {
			as = append(as, a.Sort.String())
		}
		into[t.Op] = fmt.Sprintf("(declare-fun %s (%s) %s)\n", t.Op, strings.Join(as, " "), t.Sort)
	}
	for _, a := range t.Args {
		collectUFs(a, into)
	}
}

var tmpDir string
var tmpSeq int
var tmpMu sync.Mutex

func scratchFile(ext string) string {
	tmpMu.Lock()
	defer tmpMu.Unlock()
	if tmpDir == "" {
		d, err := os.MkdirTemp("", "govc-")
		if err != nil {
			panic(err)
		}
		tmpDir = d
	}
	tmpSeq++
	return filepath.Join(tmpDir, fmt.Sprintf("q%d%s", tmpSeq, ext))
}

func cleanupScratch() {
	if e2eGenPath != "" {
		os.Remove(e2eGenPath)
		e2eGenPath = ""
	}
	if tmpDir != "" {
		os.RemoveAll(tmpDir)
		tmpDir = ""
	}
}

func runSolver(name, file string, timeout time.Duration) SolveResult {
	return runSolverCtx(context.Background(), name, file, timeout)
}

func runSolverCtx(parent context.Context, name, file string, timeout time.Duration) SolveResult {
	ctx, cancel := context.WithTimeout(parent, timeout+2*time.Second)
	defer cancel()
	args := append([]string{}, solverCmds[name][1:]...)
	switch name {
	case "z3", "z3-new":
		args = append(args, fmt.Sprintf("-T:%d", int(timeout.Seconds())))
	case "cvc5":
		args = append(args, fmt.Sprintf("--tlimit=%d", timeout.Milliseconds()))
	}
	args = append(args, file)
	start := time.Now()
	out, err := exec.CommandContext(ctx, solverCmds[name][0], args...).CombinedOutput()
	res := SolveResult{Solver: name, Seconds: time.Since(start).Seconds(), Raw: string(out)}
	first := strings.TrimSpace(strings.SplitN(string(out), "\n", 2)[0])
	switch first {
	case "unsat":
		res.Status = "unsat"
	case "sat":
		res.Status = "sat"
		res.Model = parseModel(string(out))
	case "unknown":
		res.Status = "unknown"
	case "timeout":
		res.Status = "timeout"
	default:
		if ctx.Err() != nil || strings.Contains(string(out), "timeout") || strings.Contains(string(out), "interrupted") {
			res.Status = "timeout"
		} else {
			res.Status = "error"
			if err != nil {
				res.Raw += "\n" + err.Error()
			}
		}
	}
	return res
}

// solve discharges one query. quick: z3-new first, the other two only if it
// does not answer; thorough: all three must agree for unsat.
func solve(text string, thorough bool, timeout time.Duration) SolveResult {
	f := scratchFile(".smt2")
	if err := os.WriteFile(f, []byte(text), 0o644); err != nil {
		return SolveResult{Status: "error", Raw: err.Error()}
	}
	defer os.Remove(f)
	if !thorough {
		r := runSolver("z3-new", f, timeout)
		if r.Status == "unsat" || r.Status == "sat" {
			return r
		}
		type rr struct{ r SolveResult }
		ch := make(chan SolveResult, 2)
		for _, n := range []string{"cvc5", "z3"} {
			n := n
			go func() { ch <- runSolver(n, f, timeout) }()
		}
		best := r
		for i := 0; i < 2; i++ {
			o := <-ch
			if o.Status == "unsat" || o.Status == "sat" {
				if best.Status != "unsat" && best.Status != "sat" {
					best = o
				}
			}
		}
		return best
	}
	// All three run; once two have given the same decisive answer the third gets a
	// grace period (5 s or four times the slower of the two) and is then cut off —
	// it counts as a timeout, and Agree lists the solvers that did answer.
	ch := make(chan SolveResult, 3)
	ctx, cancelAll := context.WithCancel(context.Background())
	defer cancelAll()
	for _, n := range []string{"z3-new", "cvc5", "z3"} {
		n := n
		go func() { ch <- runSolverCtx(ctx, n, f, timeout) }()
	}
	var all []SolveResult
	var grace <-chan time.Time
	for len(all) < 3 {
		select {
		case r := <-ch:
			all = append(all, r)
			if grace == nil && len(all) == 2 && all[0].Status == all[1].Status && (r.Status == "unsat" || r.Status == "sat") {
				g := 5 * time.Second
				for _, a := range all {
					if d := time.Duration(4 * a.Seconds * float64(time.Second)); d > g {
						g = d
					}
				}
				grace = time.After(g)
			}
		case <-grace:
			cancelAll()
			grace = nil
		}
	}
	var res SolveResult
	nUnsat, nSat := 0, 0
	var agree []string
	secs := 0.0
	for _, r := range all {
		secs += r.Seconds
		switch r.Status {
		case "unsat":
			nUnsat++
			agree = append(agree, r.Solver)
			if res.Status != "sat" {
				res = r
			}
		case "sat":
			nSat++
			res = r
		}
	}
	if nSat > 0 && nUnsat > 0 {
		return SolveResult{Status: "error", Raw: "solver disagreement: " + fmt.Sprint(all), Seconds: secs}
	}
	if nSat == 0 && nUnsat == 0 {
		res = all[0]
	}
	res.Agree = agree
	res.Seconds = secs
	return res
}

// ---- model parsing --------------------------------------------------------

type sexp struct {
	atom string
	kids []*sexp
}

func parseSexps(src string) []*sexp {
	var out []*sexp
	pos := 0
	for {
		s := parseSexp(src, &pos)
		if s == nil {
			return out
		}
		out = append(out, s)
	}
}

func parseSexp(src string, pos *int) *sexp {
	for *pos < len(src) && (src[*pos] == ' ' || src[*pos] == '\n' || src[*pos] == '\t' || src[*pos] == '\r') {
		*pos++
	}
	if *pos >= len(src) {
		return nil
	}
	switch src[*pos] {
	case '(':
		*pos++
		n := &sexp{}
		for {
			for *pos < len(src) && (src[*pos] == ' ' || src[*pos] == '\n' || src[*pos] == '\t' || src[*pos] == '\r') {
				*pos++
			}
			if *pos >= len(src) {
				return n
			}
			if src[*pos] == ')' {
				*pos++
				return n
			}
			k := parseSexp(src, pos)
			if k == nil {
				return n
			}
			n.kids = append(n.kids, k)
		}
	case ')':
		*pos++
		return &sexp{atom: ")"}
	case '|':
		j := *pos + 1
		for j < len(src) && src[j] != '|' {
			j++
		}
		a := src[*pos+1 : j]
		*pos = j + 1
		return &sexp{atom: a}
	case '"':
		j := *pos + 1
		for j < len(src) && src[j] != '"' {
			j++
		}
		a := src[*pos : j+1]
		*pos = j + 1
		return &sexp{atom: a}
	}
	j := *pos
	for j < len(src) && !strings.ContainsRune(" \n\t\r()", rune(src[j])) {
		j++
	}
	a := src[*pos:j]
	*pos = j
	return &sexp{atom: a}
}

func sexpNum(s *sexp) (*big.Rat, bool) {
	if s.atom != "" {
		r, ok := new(big.Rat).SetString(s.atom)
		return r, ok
	}
	if len(s.kids) == 2 && s.kids[0].atom == "-" {
		r, ok := sexpNum(s.kids[1])
		if !ok {
			return nil, false
		}
		return r.Neg(r), true
	}
	if len(s.kids) == 3 && s.kids[0].atom == "/" {
		a, ok1 := sexpNum(s.kids[1])
		b, ok2 := sexpNum(s.kids[2])
		if !ok1 || !ok2 || b.Sign() == 0 {
			return nil, false
		}
		return a.Quo(a, b), true
	}
	return nil, false
}

func parseModel(out string) map[string]*T {
	m := map[string]*T{}
	idx := strings.Index(out, "\n")
	if idx < 0 {
		return m
	}
	for _, top := range parseSexps(out[idx:]) {
		defs := top.kids
		if len(defs) > 0 && defs[0].atom == "model" {
			defs = defs[1:]
		}
		for _, d := range defs {
			if len(d.kids) != 5 || d.kids[0].atom != "define-fun" || len(d.kids[2].kids) != 0 || d.kids[2].atom != "" {
				continue
			}
			name := d.kids[1].atom
			switch d.kids[3].atom {
			case "Bool":
				m[name] = mkBool(d.kids[4].atom == "true")
			case "Int":
				if r, ok := sexpNum(d.kids[4]); ok && r.IsInt() {
					m[name] = mkIntBig(r.Num())
				}
			case "Real":
				if r, ok := sexpNum(d.kids[4]); ok {
					m[name] = mkReal(r)
				}
			}
		}
	}
	return m
}
