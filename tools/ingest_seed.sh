#!/bin/sh
# usage: tools/ingest_seed.sh <staging dir (patch.diff, meta.json, demo/)> <seed name> <property>
# Copies a sub-agent's hand-in under seeded/<name> and confirms it in a scratch worktree.
set -e
HERE="$(cd "$(dirname "$0")/.." && pwd)"
src="$1"; name="$2"; prop="$3"
cmd=$(python3 -c "import json,sys;print(json.load(open(sys.argv[1]))['demo_cmd'])" "$src/meta.json")
clean=$(python3 -c "import json,sys;print(json.load(open(sys.argv[1])).get('demo_cleanup') or 'true')" "$src/meta.json")
python3 "$HERE/tools/add_seed.py" "$name" "$src" "$prop" "$cmd" "$clean"
res=$("$HERE/tools/seed_confirm.sh" "$HERE/seeded/$name")
echo "$res"
python3 - "$HERE/seeded/$name/meta.json" "$res" <<'PY'
import json,sys
p,res=sys.argv[1],sys.argv[2]
m=json.load(open(p)); m['confirmed']=res; json.dump(m,open(p,'w'),indent=1)
PY
