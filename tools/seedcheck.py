#!/usr/bin/env python3
"""Runs the registered quick checks against each seeded change:
   git -C /repo apply <patch>; run checks; git -C /repo checkout -- .
   usage: tools/seedcheck.py [seed-name-substring ...] [--props C05,C19] [--all-props]"""
import json, os, subprocess, sys, glob, concurrent.futures
HERE = os.path.dirname(os.path.dirname(os.path.abspath(__file__)))
args = [a for a in sys.argv[1:] if not a.startswith('--')]
opt = {a.split('=')[0]: (a.split('=') + [''])[1] for a in sys.argv[1:] if a.startswith('--')}
manifest = json.load(open(os.path.join(HERE, 'MANIFEST.json')))
claimed = [c['property_id'] for c in manifest['checks']]
assert subprocess.run(['git', '-C', '/repo', 'status', '--porcelain', '--untracked-files=no'], capture_output=True, text=True).stdout.strip() == '', '/repo has uncommitted changes'
def run(p):
    r = subprocess.run([os.path.join(HERE, 'verif.sh'), 'check', p, 'quick'], capture_output=True, text=True, cwd=HERE)
    viol = [l for l in r.stdout.splitlines() if l.startswith('VIOLATION')]
    obl = [l.strip() for l in r.stdout.splitlines() if l.strip().startswith('failed obligation')]
    und = [l for l in r.stdout.splitlines() if l.startswith('UNDECIDED') or l.startswith('ENGINE')]
    return p, r.returncode, viol, obl, und
rows = []
for d in sorted(glob.glob(os.path.join(HERE, 'seeded', '*'))):
    name = os.path.basename(d)
    if args and not any(a in name for a in args):
        continue
    meta = json.load(open(os.path.join(d, 'meta.json')))
    props = opt['--props'].split(',') if opt.get('--props') else (claimed if '--all-props' in opt else [meta['property']] + [p for p in meta.get('also_check', []) if p != meta['property']])
    props = [p for p in props if p in claimed]
    ap = subprocess.run(['git', '-C', '/repo', 'apply', os.path.join(d, 'patch.diff')], capture_output=True, text=True)
    if ap.returncode != 0:
        print(name, 'PATCH DOES NOT APPLY', ap.stderr.strip()); continue
    try:
        with concurrent.futures.ThreadPoolExecutor(max_workers=4) as ex:
            results = list(ex.map(run, props))
    finally:
        subprocess.run(['git', '-C', '/repo', 'checkout', '--', '.'])
    det = [p for p, rc, v, o, u in results if rc == 1]
    print(f"{name:52s} property={meta['property']} detected_by={det or 'NONE'}")
    for p, rc, v, o, u in results:
        for l in o[:3]: print('      ', p, l[:170])
        for l in u[:2]: print('      ', p, l[:170])
    meta['detected_by'] = det
    meta['checked_props'] = props
    meta['failed_obligations'] = {p: o for p, rc, v, o, u in results if o}
    json.dump(meta, open(os.path.join(d, 'meta.json'), 'w'), indent=1)
