package main

import (
	"encoding/json"
	"fmt"
	"math/big"
	"os"
	"path/filepath"
	"regexp"
	"runtime"
	"sort"
	"strconv"
	"strings"
	"time"
)

type RunOpts struct {
	Tier     string
	Thorough bool
	Timeout  time.Duration
	Workers  int
	Seed     int
	Cover    bool
	Findings []*Finding
	Repo     string
	Verif    string
	Verbose  bool
}

type Finding struct {
	Kind       string // known | fixed
	ID         string
	Property   string
	Obligation string
	Carve      string
	CarveExpr  *Node
	Witness    string
	Site       string
	Text       string
	Seen       bool
	CanaryOK   bool
}

func (o *RunOpts) findingsFor(con *Contract) []*Finding {
	var out []*Finding
	for _, f := range o.Findings {
		if f.Kind == "known" && strings.HasPrefix(f.Obligation, con.Func+"/") {
			out = append(out, f)
		}
	}
	return out
}

var kvRe = regexp.MustCompile(`^(\w+)=(\S+)\s*`)

func loadFindings(path string) ([]*Finding, error) {
	data, err := os.ReadFile(path)
	if err != nil {
		if os.IsNotExist(err) {
			return nil, nil
		}
		return nil, err
	}
	var out []*Finding
	for ln, line := range strings.Split(string(data), "\n") {
		line = strings.TrimSpace(line)
		if line == "" || strings.HasPrefix(line, "#") {
			continue
		}
		f := &Finding{}
		switch {
		case strings.HasPrefix(line, "known:"):
			f.Kind = "known"
			line = strings.TrimSpace(strings.TrimPrefix(line, "known:"))
		case strings.HasPrefix(line, "fixed:"):
			f.Kind = "fixed"
			f.Text = strings.TrimSpace(strings.TrimPrefix(line, "fixed:"))
			if m := regexp.MustCompile(`property=(\w+)`).FindStringSubmatch(f.Text); m != nil {
				f.Property = m[1]
			}
			out = append(out, f)
			continue
		default:
			return nil, fmt.Errorf("%s:%d: line must start with known: or fixed:", path, ln+1)
		}
		for {
			if strings.HasPrefix(line, "carve=") {
				rest := strings.TrimPrefix(line, "carve=")
				idx := strings.Index(rest, " :: ")
				if idx < 0 {
					return nil, fmt.Errorf("%s:%d: carve=EXPR must be followed by ' :: text'", path, ln+1)
				}
				f.Carve = strings.TrimSpace(rest[:idx])
				f.Text = strings.TrimSpace(rest[idx+4:])
				break
			}
			m := kvRe.FindStringSubmatch(line)
			if m == nil {
				if strings.HasPrefix(line, ":: ") {
					f.Text = strings.TrimPrefix(line, ":: ")
				} else {
					f.Text = line
				}
				break
			}
			switch m[1] {
			case "id":
				f.ID = m[2]
			case "property":
				f.Property = m[2]
			case "obligation":
				f.Obligation = m[2]
			case "witness":
				f.Witness = m[2]
			case "site":
				f.Site = m[2]
			}
			line = line[len(m[0]):]
		}
		if f.Carve != "" {
			n, err := parseExpr(f.Carve, fmt.Sprintf("%s:%d", filepath.Base(path), ln+1))
			if err != nil {
				return nil, err
			}
			f.CarveExpr = n
		}
		if f.ID == "" || f.Property == "" {
			return nil, fmt.Errorf("%s:%d: known finding needs id= and property=", path, ln+1)
		}
		out = append(out, f)
	}
	return out, nil
}

func usage() {
	fmt.Fprintln(os.Stderr, `usage: govc check <property-id> [--tier quick|thorough] [--repo DIR] [--verif DIR] [-v]
       govc replay <file>
       govc list
       govc dump <func>`)
	os.Exit(2)
}

func main() {
	if len(os.Args) < 2 {
		usage()
	}
	opts := &RunOpts{Tier: "quick", Timeout: 10 * time.Second, Workers: runtime.NumCPU(), Repo: "/repo", Verif: "/verif", Cover: true}
	if n, err := strconv.Atoi(os.Getenv("GOVC_WORKERS")); err == nil && n > 0 {
		opts.Workers = n
	}
	if t := os.Getenv("VERIF_TIER"); t == "quick" || t == "thorough" {
		opts.Tier = t
	}
	if s, err := strconv.Atoi(os.Getenv("VERIF_SEED")); err == nil {
		opts.Seed = s
	}
	var pos []string
	args := os.Args[2:]
	for i := 0; i < len(args); i++ {
		switch args[i] {
		case "--tier":
			i++
			opts.Tier = args[i]
		case "--repo":
			i++
			opts.Repo = args[i]
		case "--verif":
			i++
			opts.Verif = args[i]
		case "-v":
			opts.Verbose = true
		default:
			pos = append(pos, args[i])
		}
	}
	if opts.Tier == "thorough" {
		opts.Thorough = true
		thoroughShapes = true
		opts.Timeout = 60 * time.Second
	}
	defer cleanupScratch()
	code := 2
	switch os.Args[1] {
	case "check":
		if len(pos) != 1 {
			usage()
		}
		code = cmdCheck(pos[0], opts)
	case "replay":
		if len(pos) != 1 {
			usage()
		}
		code = cmdReplay(pos[0], opts)
	case "list":
		code = cmdList(opts)
	case "e2e":
		code = cmdE2E(pos, opts)
	case "dump":
		code = cmdDump(pos, opts)
	default:
		usage()
	}
	cleanupScratch()
	os.Exit(code)
}

func cmdE2E(pos []string, opts *RunOpts) int {
	if len(pos) != 1 {
		usage()
	}
	c, err := loadE2ECase(pos[0])
	if err != nil {
		fmt.Fprintln(os.Stderr, "govc:", err)
		return 2
	}
	r, err := runE2E(opts, c)
	if err != nil {
		fmt.Fprintln(os.Stderr, "govc:", err)
		return 2
	}
	if opts.Verbose {
		for n, s := range r.Files {
			fmt.Printf("---- %s ----\n%s\n", n, s)
		}
	}
	fmt.Printf("generator: error=%q panic=%q warnings=%d; compile error: %q (%.1fs)\n", r.GenError, r.GenPanic, len(r.Warnings), trunc(r.CompileError, 500), r.Seconds)
	for i, v := range r.Verdicts {
		fmt.Printf("  %-40s expect=%-7s observed=%-7s %s %s\n", c.Docs[i].Doc, c.Docs[i].Expect, v.Verdict, trunc(v.Err, 100), trunc(v.Value, 80))
	}
	viol := c.violations(r)
	for _, v := range viol {
		fmt.Println("  VIOLATES:", v)
	}
	if len(viol) > 0 {
		return 1
	}
	return 0
}

func cmdList(opts *RunOpts) int {
	w, err := loadWorld(opts.Repo)
	if err != nil {
		fmt.Fprintln(os.Stderr, "govc:", err)
		return 2
	}
	for _, c := range w.specs.Contracts {
		fn := w.findFunc(c)
		st := "ok"
		if fn == nil {
			st = "MISSING"
		}
		fmt.Printf("%-12s %-50s props=%v %s\n", c.Pkg, c.Func, c.Props, st)
	}
	return 0
}

func cmdDump(pos []string, opts *RunOpts) int {
	w, err := loadWorld(opts.Repo)
	if err != nil {
		fmt.Fprintln(os.Stderr, "govc:", err)
		return 2
	}
	for _, c := range w.specs.Contracts {
		if len(pos) > 0 && c.Func != pos[0] {
			continue
		}
		if fn := w.findFunc(c); fn != nil {
			fn.WriteTo(os.Stdout)
		}
	}
	return 0
}

func contractTouches(c *Contract, id string) bool {
	if hasTag(c.Props, id) {
		return true
	}
	for _, cl := range c.Clauses {
		if hasTag(cl.Tags, id) {
			return true
		}
	}
	return false
}

func cmdCheck(id string, opts *RunOpts) int {
	start := time.Now()
	fs, err := loadFindings(filepath.Join(opts.Verif, "KNOWN_FINDINGS.txt"))
	if err != nil {
		fmt.Fprintln(os.Stderr, "govc:", err)
		return 2
	}
	opts.Findings = fs
	w, err := loadWorld(opts.Repo)
	if err != nil {
		fmt.Fprintln(os.Stderr, "govc: cannot load", opts.Repo+":", err)
		return 2
	}
	loadSecs := time.Since(start).Seconds()
	var results []*FuncResult
	var all []*Oblig
	for _, c := range w.specs.Contracts {
		if !contractTouches(c, id) {
			continue
		}
		r := w.verifyContract(c, opts)
		results = append(results, r)
		for _, ob := range r.Obs {
			if hasTag(ob.Tags, id) || ob.Kind == "cover" || ob.Kind == "seqcover" {
				all = append(all, ob)
			}
		}
	}
	extra := w.extraChecks(id, opts)
	all = append(all, extra.Obs...)
	genSecs := time.Since(start).Seconds() - loadSecs
	discharge(all, opts.Thorough, opts.Timeout, opts.Workers)
	rep := buildReport(id, w, opts, results, all, extra)
	rep.LoadSecs, rep.GenSecs = loadSecs, genSecs
	rep.finish(start)
	return rep.Exit
}

func modelScore(o *Oblig) float64 {
	if o.Res.Status != "sat" {
		return 1e18
	}
	sc := 0.0
	for k, v := range o.Res.Model {
		if strings.HasPrefix(k, "fpround!") || strings.HasPrefix(k, "wrap!") || strings.HasPrefix(k, "havoc!") {
			sc += 1e6
		}
		if v.Op == "num" {
			f, _ := new(big.Rat).Abs(v.Num).Float64()
			if f > 1e15 {
				sc += 1e3
			}
			if !v.Num.IsInt() {
				sc += 10
				if v.Num.Denom().BitLen() > 20 {
					sc += 1e3
				}
			}
			sc += float64(v.Num.Num().BitLen())
		}
	}
	return sc
}

// ---------------------------------------------------------------------------

type Report struct {
	ID       string
	Exit     int
	LoadSecs float64
	GenSecs  float64
	lines    []string
	ev       map[string]interface{}
	opts     *RunOpts
}

func (r *Report) finish(start time.Time) {
	r.ev["wall_s"] = time.Since(start).Seconds()
	cov := r.ev["coverage"].(map[string]interface{})
	cov["load_s"] = r.LoadSecs
	cov["vcgen_s"] = r.GenSecs
	data, _ := json.MarshalIndent(r.ev, "", " ")
	dir := filepath.Join(r.opts.Verif, "evidence")
	os.MkdirAll(dir, 0o755)
	if err := os.WriteFile(filepath.Join(dir, r.ID+".json"), append(data, '\n'), 0o644); err != nil {
		fmt.Fprintln(os.Stderr, "govc: cannot write evidence:", err)
		r.Exit = 2
	}
	for _, l := range r.lines {
		fmt.Println(l)
	}
}

func buildReport(id string, w *World, opts *RunOpts, results []*FuncResult, all []*Oblig, extra *Extra) *Report {
	rep := &Report{ID: id, opts: opts}
	named := groupNamed(all)
	nQueries, nDischarged, nTrivial := 0, 0, 0
	solverTime := map[string]float64{}
	solverCount := map[string]int{}
	kinds := map[string]int{}
	undischarged := []map[string]interface{}{}
	var samples []interface{}
	violations := 0
	feasible := map[string]int{}
	var failedNamed []*Named
	for _, n := range named {
		if n.Kind == "cover" || n.Kind == "seqcover" {
			for _, q := range n.Queries {
				if q.Res.Status == "sat" {
					feasible[q.Func]++
				}
				if q.Expect == "notunsat" && q.Res.Status == "unsat" {
					// the contract's own assumptions (requires, invariant, library axioms) are contradictory
					rep.lines = append(rep.lines, "ENGINE-ERROR: vacuity: "+n.Name+" — the assumptions of this contract are unsatisfiable")
					rep.Exit = 2
				}
			}
			continue
		}
		kinds[n.Kind]++
		for _, q := range n.Queries {
			nQueries++
			solverTime[q.Res.Solver] += q.Res.Seconds
			solverCount[q.Res.Solver]++
			if q.ok() {
				nDischarged++
				if q.Trivial {
					nTrivial++
				}
			}
		}
		if len(n.Failed) > 0 {
			failedNamed = append(failedNamed, n)
		}
	}
	// vacuity guard: every post `A ==> B` of a verified contract has A reachable
	vacuous := []string{}
	for _, r := range results {
		if r == nil || r.AnteSeen == nil {
			continue
		}
		for _, nm := range sortedStrKeys(r.AnteSeen) {
			if r.AnteReached[nm] {
				continue
			}
			reached := false
			for _, n := range named {
				if n.Name == nm+"@reachable" {
					for _, q := range n.Queries {
						if q.Res.Status == "sat" {
							reached = true
						}
					}
				}
			}
			if !reached && len(r.Errors) == 0 {
				vacuous = append(vacuous, nm)
				rep.lines = append(rep.lines, fmt.Sprintf("note: vacuous post %s (%s): its antecedent holds on no explored path", nm, r.AnteSeen[nm]))
			}
		}
	}
	// findings bookkeeping
	knownSeen := []string{}
	for _, f := range opts.Findings {
		if f.Kind != "known" || !hasTag(strings.Split(f.Property, ","), id) {
			continue
		}
		canaryOK := false
		carved := false
		for _, n := range named {
			if n.Name == f.Obligation+"@canary:"+f.ID {
				for _, q := range n.Queries {
					if q.Res.Status == "sat" {
						canaryOK = true
					}
				}
			}
			if n.Name == f.Obligation && n.Carved {
				carved = true
			}
		}
		if f.Obligation != "" && f.Carve != "" {
			if carved && canaryOK {
				rep.lines = append(rep.lines, fmt.Sprintf("KNOWN-FINDING: property=%s %s [%s; obligation %s fails inside carve-out %s]", id, f.Text, f.ID, f.Obligation, f.Carve))
				knownSeen = append(knownSeen, f.ID)
			} else if carved {
				rep.lines = append(rep.lines, fmt.Sprintf("note: known finding %s no longer reproduces (carve-out not refutable); entry is stale", f.ID))
			}
		}
	}
	for _, kf := range extra.KnownSeen {
		rep.lines = append(rep.lines, kf)
	}
	rep.lines = append(rep.lines, extra.Lines...)
	knownSeen = append(knownSeen, extra.KnownIDs...)
	// failures
	// known findings that name a whole obligation (no carve-out): the obligation
	// belongs to a scenario contract written for the finding and is expected to
	// fail; the finding's end-to-end witness is what is replayed on every run.
	wholeKnown := map[string]*Finding{}
	for _, f := range opts.Findings {
		if f.Kind == "known" && f.Obligation != "" && f.Carve == "" && hasTag(strings.Split(f.Property, ","), id) {
			wholeKnown[f.Obligation] = f
			fails := false
			present := false
			for _, n := range named {
				if n.Name == f.Obligation {
					present = true
					fails = len(n.Failed) > 0
				}
			}
			if present && !fails {
				rep.lines = append(rep.lines, fmt.Sprintf("note: known finding %s: obligation %s now holds; entry is stale", f.ID, f.Obligation))
			}
		}
	}
	for _, n := range failedNamed {
		if n.Kind == "canary" {
			continue // stale known finding, reported above
		}
		if f, ok := wholeKnown[n.Name]; ok {
			if f.Witness == "" { // with a witness the line comes from its end-to-end replay
				rep.lines = append(rep.lines, fmt.Sprintf("KNOWN-FINDING: property=%s %s [%s; obligation %s fails (%d of %d queries)]", id, f.Text, f.ID, n.Name, len(n.Failed), len(n.Queries)))
				knownSeen = append(knownSeen, f.ID)
			}
			continue
		}
		// order candidate models: few havoc symbols, small numbers first
		cands := append([]*Oblig{}, n.Failed...)
		sort.SliceStable(cands, func(i, j int) bool { return modelScore(cands[i]) < modelScore(cands[j]) })
		q := cands[0]
		n.Failed = cands
		entry := map[string]interface{}{"obligation": n.Name, "failed_queries": len(n.Failed), "of": len(n.Queries), "status": q.Res.Status, "solver": q.Res.Solver}
		undischarged = append(undischarged, entry)
		violations++
		path := writeReplay(opts, id, n, q, w)
		suffix := ""
		if !replayReproduced(path) {
			// try further failed queries that have a model
			tried := 0
			for _, c := range n.Failed {
				if c == q || c.Res.Status != "sat" {
					continue
				}
				tried++
				if tried > 12 {
					break
				}
				p2 := writeReplay(opts, id, n, c, w)
				if replayReproduced(p2) {
					q = c
					break
				}
			}
			if !replayReproduced(path) {
				writeReplay(opts, id, n, q, w) // keep the first model in the file
				suffix = " no-failing-input-found"
			}
		}
		rep.lines = append(rep.lines, fmt.Sprintf("VIOLATION property=%s replay=%s%s", id, path, suffix))
		rep.lines = append(rep.lines, fmt.Sprintf("  failed obligation: %s (%d of %d queries; first: %s by %s) shape[%s] %s", n.Name, len(n.Failed), len(n.Queries), q.Res.Status, q.Res.Solver, q.Shape, q.Where))
	}
	// undecided: contracts whose target is missing, or parts outside the subset
	undecided := []string{}
	var fuc []interface{}
	assumptions := []string{}
	assumeSeen := map[string]bool{}
	addAssume := func(s string) {
		if !assumeSeen[s] {
			assumeSeen[s] = true
			assumptions = append(assumptions, s)
		}
	}
	for _, r := range results {
		if r.Missing && len(r.Con.clauses("ensures")) == 0 && len(r.Con.clauses("requires")) == 0 {
			continue
		}
		if r.Missing {
			undecided = append(undecided, r.Con.Func+": target function not found in /repo (contract undecided)")
			rep.lines = append(rep.lines, "UNDECIDED: "+r.Con.Func+" not found; its obligations are not checked")
			continue
		}
		if r.SweepOnly {
			continue
		}
		if r.Assumed {
			addAssume("assumed (trusted) contract of " + r.Con.Pkg + ":" + r.Con.Func + " — used at call sites, not proved")
			continue
		}
		for _, e := range r.Errors {
			undecided = append(undecided, r.Con.Func+": "+e)
			rep.lines = append(rep.lines, "UNDECIDED: "+r.Con.Func+": "+e)
		}
		fuc = append(fuc, map[string]interface{}{
			"function": r.Con.Pkg + ":" + r.Con.Func, "ssa_instructions": r.Stats.SSAInstrs, "input_shapes": r.Stats.Shapes,
			"shapes_excluded_by_requires": r.Stats.ShapesSkipped, "paths": r.Stats.Paths, "feasible_paths": feasible[r.Con.Func],
			"calls_by_contract": r.Stats.ByContract, "calls_inlined": r.Stats.Inlined, "calls_modelled": r.Stats.Modelled, "calls_havocked": r.Stats.Havocked,
		})
		for _, a := range r.Assumption {
			addAssume(a)
		}
		for k := range r.Stats.Modelled {
			addAssume("assumed contract (engine model) of " + k)
		}
		for k := range r.Stats.Havocked {
			addAssume("havocked: " + k + " (assumed not to touch tracked state)")
		}
		if r.Stats.Paths > 0 && feasible[r.Con.Func] == 0 && opts.Cover {
			rep.lines = append(rep.lines, "ENGINE-ERROR: vacuity: no feasible path through "+r.Con.Func)
			rep.Exit = 2
		}
	}
	for _, ob := range all {
		for _, n := range ob.Notes {
			if strings.HasPrefix(n, "assume") || strings.HasPrefix(n, "float") {
				addAssume(n)
			}
		}
	}
	for k := range mapKeyAssumptions {
		addAssume("assume: unknown strings used as keys of one map differ: " + k)
	}
	for _, a := range w.specs.Assumes {
		addAssume("contract file: " + a)
	}
	for _, a := range extra.Assumptions {
		addAssume(a)
	}
	sort.Strings(assumptions)
	// samples
	cnt := 0
	for _, n := range named {
		if n.Kind == "cover" || n.Kind == "seqcover" || cnt >= 6 {
			continue
		}
		q := n.Queries[len(n.Queries)/2]
		g := q.Goal.String()
		if len(g) > 600 {
			g = g[:600] + "…"
		}
		samples = append(samples, map[string]interface{}{"obligation": n.Name, "kind": n.Kind, "queries": len(n.Queries), "sample_query": map[string]interface{}{
			"shape": q.Shape, "path": q.PathNo, "assumptions": len(q.Assume), "goal": g, "status": q.Res.Status, "solver": q.Res.Solver, "seconds": q.Res.Seconds}})
		cnt++
	}
	samples = append(samples, extra.Samples...)
	namedCount := 0
	namedDischarged := 0
	var namedList []string
	knownObls := []string{}
	for _, n := range named {
		if n.Kind == "cover" || n.Kind == "seqcover" || n.Kind == "canary" {
			continue
		}
		if f, ok := wholeKnown[n.Name]; ok {
			// the scenario obligation of a known finding: expected to fail, reported
			// apart and not counted among the obligations claimed to hold
			knownObls = append(knownObls, fmt.Sprintf("%s [known finding %s; fails in %d of %d queries]", n.Name, f.ID, len(n.Failed), len(n.Queries)))
			continue
		}
		namedCount++
		if len(n.Failed) == 0 {
			namedDischarged++
		}
		namedList = append(namedList, fmt.Sprintf("%s [%d queries%s]", n.Name, len(n.Queries), map[bool]string{true: ", outside known-finding carve-out " + n.Finding, false: ""}[n.Carved]))
	}
	if namedCount == 0 && len(extra.Obs) == 0 && extra.Count == 0 {
		rep.lines = append(rep.lines, "ENGINE-ERROR: no obligations generated for "+id)
		rep.Exit = 2
	}
	violations += extra.Violations
	if extra.EngineError {
		rep.Exit = 2
	}
	if violations > 0 && rep.Exit == 0 {
		rep.Exit = 1
	}
	level := "proof"
	cov := map[string]interface{}{
		"known_finding_obligations":    knownObls,
		"vacuous_posts":                vacuous,
		"obligations":                  namedCount + extra.Count,
		"discharged":                   namedDischarged + extra.Discharged,
		"queries":                      nQueries,
		"queries_discharged":           nDischarged,
		"queries_closed_by_simplifier": nTrivial,
		"checker_cmd":                  fmt.Sprintf("bin/govc check %s --tier %s  (VC generation over go/ssa of %s; back ends z3-new 5.1.0, z3 4.8.12, cvc5 1.0.3)", id, opts.Tier, opts.Repo),
		"trusted_base": []string{
			"golang.org/x/tools v0.29.0 go/ssa builder and go/types",
			"govc itself (symbolic executor, contract evaluator, stage-2 translator)",
			"SMT solvers z3-new 5.1.0 / z3 4.8.12 / cvc5 1.0.3" + map[bool]string{true: " (all three must agree on unsat)", false: " (first definite answer)"}[opts.Thorough],
			"float64 values modelled as the real numbers they denote; comparisons exact; float +/- exact only for integral operands with |result| <= 2^53 (otherwise havocked); int64(float) as on amd64",
			"generator-side int arithmetic treated as mathematical integers",
		},
		"functions_under_contract": fuc,
		"obligation_kinds":         kinds,
		"named_obligations":        namedList,
		"solver_time_s":            solverTime,
		"solver_queries":           solverCount,
		"undischarged":             undischarged,
		"undecided":                undecided,
		"known_findings_seen":      knownSeen,
		"samples":                  samples,
		"contract_files":           w.specs.Files,
		"contract_lines":           w.specs.Lines,
	}
	for k, v := range extra.Coverage {
		cov[k] = v
	}
	rep.ev = map[string]interface{}{
		"property_id": id, "tier": opts.Tier, "seed": opts.Seed, "level": level, "coverage": cov,
		"assumptions": assumptions, "violations": violations,
	}
	rep.lines = append(rep.lines, fmt.Sprintf("%s: %d named obligations (%d queries), %d discharged, %d violations, %d undecided notes; tier=%s", id, namedCount+extra.Count, nQueries, namedDischarged+extra.Discharged, violations, len(undecided), opts.Tier))
	return rep
}

func sortedStrKeys(m map[string]string) []string {
	var ks []string
	for k := range m {
		ks = append(ks, k)
	}
	sort.Strings(ks)
	return ks
}
