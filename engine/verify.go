package main

// Verification of one function against its contract.

import (
	"fmt"
	"regexp"
	"strconv"
	"strings"

	"golang.org/x/tools/go/ssa"
)

type FuncResult struct {
	Con        *Contract
	Fn         *ssa.Function
	Missing    bool // target function not found: obligations undecided
	Stats      *FuncStats
	Obs        []*Oblig
	Errors     []string // outside-subset / engine errors (undecided parts)
	Assumption []string
	Assumed    bool
	SweepOnly  bool
	// vacuity guard: posts of the form A ==> B, where seen, and whether A was
	// found reachable without the solver
	AnteSeen    map[string]string
	AnteReached map[string]bool
}

func (w *World) verifyContract(con *Contract, opts *RunOpts) (res *FuncResult) {
	res = &FuncResult{Con: con, Stats: newFuncStats(con.Func)}
	fn := w.findFunc(con)
	if fn == nil {
		res.Missing = true
		return res
	}
	res.Fn = fn
	res.Stats.SSAInstrs = countInstrs(fn)
	sweepOnly := con.sweepOnly()
	if sweepOnly {
		// the clauses of this contract are consumed by the error-propagation and
		// map-iteration families; there is nothing to execute symbolically
		res.SweepOnly = true
		return res
	}
	if len(con.clauses("trusted")) > 0 && len(con.clauses("ensures")) == 0 {
		// an assumed contract (used at call sites only): nothing to prove here;
		// it is listed among the assumptions
		res.Assumed = true
		return res
	}
	if _, ok := con.option("seq"); ok {
		w.verifySeq(con, fn, res)
		return res
	}
	e := &Exec{w: w, fnUnder: fn, conUnder: con, stats: res.Stats, callSeq: map[string]int{}, noContract: map[string]bool{}}
	if v, ok := con.option("inline"); ok {
		for _, f := range strings.Fields(v) {
			e.noContract[f] = true
		}
	}
	if _, ok := con.option("overflow"); ok {
		e.overflow = true
	}
	_, float64FactsOn = con.option("float64facts")
	e.sink = func(ob *Oblig) { res.Obs = append(res.Obs, ob) }
	errSeen := map[string]bool{}
	addErr := func(msg string) {
		if !errSeen[msg] {
			errSeen[msg] = true
			res.Errors = append(res.Errors, msg)
		}
	}
	var shapes []*ShapeCase
	func() {
		defer func() {
			if r := recover(); r != nil {
				if ep, ok := r.(execPanic); ok {
					addErr("shapes: " + ep.msg)
					return
				}
				panic(r)
			}
		}()
		shapes = e.genShapes(fn, con)
	}()
	findings := opts.findingsFor(con)
	pathNo := 0
	anteReached := map[string]bool{}
	anteQueries := map[string]int{}
	anteSeen := map[string]string{}
	defer func() {
		res.AnteSeen, res.AnteReached = anteSeen, anteReached
	}()
	if _, ok := con.option("both-map-orders"); ok {
		// every shape once with maps iterated in insertion order, once reversed
		var both []*ShapeCase
		for _, sc := range shapes {
			rev := &ShapeCase{St: sc.St.clone(), Args: sc.Args, Env: sc.Env, Desc: append(append([]string{}, sc.Desc...), "maporder=reversed")}
			rev.St.Ghost["maporder"] = lit("rev")
			both = append(both, sc, rev)
		}
		shapes = both
	}
	for _, sc := range shapes {
		func() {
			defer func() {
				if r := recover(); r != nil {
					switch p := r.(type) {
					case execPanic:
						if strings.HasPrefix(p.msg, "non-termination:") {
							pathNo++
							ob := &Oblig{Kind: "termination", Name: con.Func + "/termination(bounded)", Goal: tFalse, PathNo: pathNo, Tags: append(append([]string{}, con.Props...), "C18"), Where: p.msg, Shape: strings.Join(sc.Desc, " "), Func: con.Func}
							e.sink(ob)
							return
						}
						addErr(p.msg)
						res.Stats.Unsupported[p.msg]++
					case specPanic:
						addErr("spec: " + p.msg)
					default:
						panic(r)
					}
				}
			}()
			st := sc.St
			e.scenario = strings.Join(sc.Desc, " ")
			// scenario set-up that links separately shaped inputs (an entry of g's map
			// keyed by the parameter t, say)
			for _, su := range con.clauses("setup") {
				ctx := &EvalCtx{sp: w.specs, env: sc.Env, st: st, old: st, ex: e, origin: con.Func + "/setup"}
				ctx.eval(su.Expr)
			}
			// preconditions
			for _, rq := range con.clauses("requires") {
				var defs []*T
				ctx := &EvalCtx{sp: w.specs, env: sc.Env, st: st, old: st, assume: true, ex: e, origin: con.Func + "/requires", defs: &defs}
				var lem []*Lemma
				ctx.lemmas = &lem
				t := ctx.evalClause(rq.Expr)
				if t.isFalse() {
					res.Stats.ShapesSkipped++
					return
				}
				st.assume(t)
				for _, d := range defs {
					st.assume(d)
				}
			}
			// `option after-call p=shape`: the scenario starts AFTER a first call of the
			// function itself (same arguments, parameter p replaced): for properties of
			// call sequences on one receiver (add twice, look up after insert)
			if ac, ok := con.option("after-call"); ok {
				args0 := append([]Val{}, sc.Args...)
				for _, one := range strings.Split(ac, ";") { // p=shape; q=shape
					one = strings.TrimSpace(one)
					if one == "" {
						continue
					}
					eq := strings.Index(one, "=")
					if eq < 0 {
						panic(specPanic{con.Pos + ": option after-call param=shape[; param=shape]"})
					}
					pn, shp := strings.TrimSpace(one[:eq]), strings.TrimSpace(one[eq+1:])
					found := false
					for k, p := range fn.Params {
						if p.Name() != pn {
							continue
						}
						found = true
						if len(shp) >= 2 && shp[0] == '"' {
							sv, err := strconv.Unquote(shp)
							if err != nil {
								panic(specPanic{con.Pos + ": option after-call: bad string " + shp})
							}
							args0[k] = lit(sv)
							continue
						}
						alts, ok := e.customShape(pn, p.Type(), shp)
						if !ok || len(alts) == 0 {
							panic(specPanic{con.Pos + ": option after-call: shape " + shp + " not understood"})
						}
						v, _ := alts[0](st)
						args0[k] = v
					}
					if !found {
						panic(execPanic{"option after-call: no parameter " + pn})
					}
				}
				outs0 := e.run(st, fn, args0)
				// several outcomes (a callee that may fail): the scenario continues after the
				// first one that does not panic and returns no error
				pick := -1
				for k, o0 := range outs0 {
					if o0.Panic != "" {
						continue
					}
					failed := false
					if n := len(o0.Rets); n > 0 {
						if iv, ok := o0.Rets[n-1].(Iface); ok && iv.Dyn != nil && fn.Signature.Results().Len() == n && fn.Signature.Results().At(n-1).Type().String() == "error" {
							failed = true
						}
					}
					if !failed {
						pick = k
						break
					}
				}
				if pick < 0 {
					panic(execPanic{fmt.Sprintf("option after-call: none of the %d outcomes of the first call succeeds", len(outs0))})
				}
				st = outs0[pick].St
			}
			res.Stats.Shapes++
			pre := st.snapshot()
			for c := range st.Fresh {
				delete(st.Fresh, c)
			}
			exempt := map[string]bool{}
			for _, as := range con.clauses("assigns") {
				if strings.TrimSpace(as.Raw) == "nothing" {
					continue
				}
				for _, lv := range splitTop(as.Raw) {
					n, err := parseExpr(lv, as.Pos)
					if err != nil {
						panic(specPanic{err.Error()})
					}
					ctx := &EvalCtx{sp: w.specs, env: sc.Env, st: pre, ex: e}
					if ref, ok := ctx.evalRef(n); ok && !ref.isNil() {
						exempt[fmt.Sprintf("%d%s", ref.Cell, ref.Path)] = true
					}
				}
			}
			e.curCtx = &obCtx{shape: sc, pre: pre, con: con}
			outs := e.run(st.clone(), fn, sc.Args)
			e.curCtx = nil
			var twinOuts []Out
			if tw, ok := con.option("twin"); ok {
				tcon := &Contract{Pkg: con.Pkg, Func: strings.TrimSpace(tw)}
				tfn := w.findFunc(tcon)
				if tfn == nil {
					panic(execPanic{"twin function " + tw + " not found"})
				}
				twinOuts = e.run(st.clone(), tfn, sc.Args)
			}
			// `option call-result emitter`: the function returns a func(*Emitter);
			// the harness applies it to a fresh emitter, bound to `out`
			var emitterRef Ref
			if _, ok := con.option("call-result"); ok {
				applyTo := func(in []Out) []Out {
					var res []Out
					for _, o := range in {
						if o.Panic != "" {
							res = append(res, o)
							continue
						}
						cl, ok := o.Rets[0].(Closure)
						if !ok || cl.Fn == nil {
							panic(execPanic{"call-result: function result expected"})
						}
						pt := cl.Fn.Signature.Params().At(0).Type()
						alts, _ := e.customShape("out", pt, "emitter")
						ev, _ := alts[0](o.St)
						emitterRef = ev.(Ref)
						o.St.Ghost["harness:out"] = emitterRef
						for _, o2 := range e.callClosure(o.St, cl, []Val{emitterRef}) {
							o2.Rets = o.Rets
							res = append(res, o2)
						}
					}
					return res
				}
				outs = applyTo(outs)
				twinOuts = applyTo(twinOuts)
			}
			for oi, o := range outs {
				pathNo++
				res.Stats.Paths++
				e.scenario = strings.Join(sc.Desc, " ")
				if opts.Cover && res.Stats.Paths <= 8 {
					cov := &Oblig{Kind: "cover", Name: con.Func + "/cover", Goal: tFalse, Expect: "sat", PathNo: pathNo}
					e.emit(o.St, cov)
				}
				if o.Panic != "" {
					ob := &Oblig{Kind: "safety", Name: con.Func + "/safety/no-panic", Where: o.Panic, Goal: tFalse, PathNo: pathNo}
					ob.ctx = &obCtx{shape: sc, pre: pre, post: o.St, con: con}
					e.emit(o.St, ob)
					continue
				}
				env2 := copyEnv(sc.Env)
				bindResults(env2, o.Rets)
				if r, ok := o.St.Ghost["harness:out"].(Ref); ok {
					env2["out"] = r
				}
				if twinOuts != nil {
					// relational obligation: the twin emits the same text modulo the decode call
					goal := tFalse
					note := "twin produced a different number of paths"
					if len(twinOuts) == len(outs) && twinOuts[oi].Panic == "" {
						t1, t2 := emittedOf(o.St), emittedOf(twinOuts[oi].St)
						n1, n2 := normalizeUnmarshal(t1), normalizeUnmarshal(t2)
						goal = mkBool(n1 == n2)
						note = firstDiff(n1, n2)
					}
					ob := &Oblig{Kind: "relational", Name: con.Func + "/twin-text-equal", Goal: goal, PathNo: pathNo, Tags: con.Props, Where: note}
					ob.ctx = &obCtx{shape: sc, pre: pre, post: o.St, rets: o.Rets, con: con}
					e.emit(o.St, ob)
				}
				for k, en := range con.clauses("ensures") {
					label := en.Label
					if label == "" {
						label = fmt.Sprint(k)
					}
					name := con.Func + "/ensures#" + label
					var sk []*T
					var defs []*T
					ctx := &EvalCtx{sp: w.specs, env: env2, st: o.St, old: pre, skolems: &sk, ex: e, origin: name, defs: &defs}
					where := en.Pos
					goal := func() (g *T) {
						defer func() {
							if r := recover(); r != nil {
								// a post that reads a field of, or dereferences, a nil value is not
								// well defined on this path: on the unchanged tree every post is, so the
								// state contradicts what the post presupposes (a result that is nil
								// where the post speaks about its fields). A failed obligation, not an
								// undecided contract. Any other spec error stays undecided.
								if sp, ok := r.(specPanic); ok && strings.Contains(sp.msg, "of nil pointer") {
									where = en.Pos + ": the post is not well defined on this path: " + sp.msg
									g = tFalse
									return
								}
								panic(r)
							}
						}()
						return ctx.evalClause(en.Expr)
					}()
					ob := &Oblig{Kind: "ensures", Name: name, Goal: goal, Tags: en.Tags, Skolems: sk, PathNo: pathNo, Where: where, Defs: defs}
					if len(ob.Tags) == 0 {
						ob.Tags = con.Props
					}
					ob.ctx = &obCtx{shape: sc, pre: pre, post: o.St, rets: o.Rets, clause: en, con: con}
					e.emit(o.St, ob)
					// vacuity guard: a post `A ==> B` must have its antecedent reachable on
					// some explored path (decided by the simplifier where it can, else by a
					// few solver queries); reported per contract at the end
					if en.Expr.Kind == "binary" && en.Expr.Op == "==>" && !anteReached[name] {
						func() {
							defer func() { recover() }()
							actx := &EvalCtx{sp: w.specs, env: env2, st: o.St, old: pre, ex: e, origin: name + "@ante"}
							ante := actx.evalBool(en.Expr.Kids[0])
							switch {
							case ante.isTrue() && !goal.isTrue():
								anteReached[name] = true
							case ante.isTrue():
								anteReached[name] = true
							case ante.isFalse():
							default:
								// the first few paths, then a sample of the later ones
								if anteQueries[name] < 4 || (anteQueries[name] < 48 && (pathNo%5 == 0 || pathNo%7 == 3 || pathNo%11 == 6)) {
									anteQueries[name]++
									cov := &Oblig{Kind: "cover", Name: name + "@reachable", Goal: mkNot(ante), Expect: "sat", PathNo: pathNo}
									e.emit(o.St, cov)
								}
							}
							if _, seen := anteSeen[name]; !seen {
								anteSeen[name] = en.Pos
							}
						}()
					}
					// known-finding carve-outs
					for _, kf := range findings {
						if kf.Obligation != name {
							continue
						}
						var cdefs []*T
						cctx := &EvalCtx{sp: w.specs, env: env2, st: pre, old: pre, ex: e, origin: name, skolems: &sk, defs: &cdefs}
						carve := cctx.evalCarve(kf.CarveExpr, sk)
						ob.Assume = append(ob.Assume, cdefs...)
						// (1) outside the carve-out the goal must hold
						ob.Assume = append(ob.Assume, mkNot(carve))
						ob.Carved = true
						ob.CarveOf = kf.ID
						// (2) canary: inside the carve-out the goal must still be refutable
						can := *ob
						can.Assume = append(append([]*T{}, ob.Assume[:len(ob.Assume)-1]...), carve)
						can.Name = name + "@canary:" + kf.ID
						can.Kind = "canary"
						can.Expect = "sat"
						can.CarveHit = true
						can.Carved = false
						res.Obs = append(res.Obs, &can)
					}
				}
				// result shapes claimed by `shape resultK = ...` are obligations here
				for _, scl := range con.clauses("shape") {
					eq := strings.Index(scl.Raw, "=")
					path := strings.TrimSpace(scl.Raw[:eq])
					if !strings.HasPrefix(path, "result") || path == "results" {
						continue
					}
					var k int
					fmt.Sscanf(path, "result%d", &k)
					if k >= len(o.Rets) {
						panic(specPanic{scl.Pos + ": no such result"})
					}
					if strings.TrimSpace(scl.Raw[eq+1:]) == "anystring" {
						continue
					}
					var alts []*T
					for _, a := range strings.Split(scl.Raw[eq+1:], "|") {
						n, err := parseExpr(strings.TrimSpace(a), scl.Pos)
						if err != nil {
							panic(specPanic{err.Error()})
						}
						ctx := &EvalCtx{sp: w.specs, env: env2, st: o.St, old: pre, ex: e}
						alts = append(alts, ctx.valEq(n, o.Rets[k], ctx.eval(n)))
					}
					ob := &Oblig{Kind: "ensures", Name: con.Func + "/result-shape#" + path, Goal: mkOr(alts...), PathNo: pathNo, Tags: con.Props, Where: scl.Pos}
					ob.ctx = &obCtx{shape: sc, pre: pre, post: o.St, rets: o.Rets, con: con}
					e.emit(o.St, ob)
				}
				// frame: the input footprint is unchanged except where assigns says so
				frame := frameGoal(pre, o.St, exempt)
				if _, off := con.option("noframe"); !off {
					ob := &Oblig{Kind: "frame", Name: con.Func + "/frame", Goal: frame, PathNo: pathNo, Tags: con.Props}
					ob.ctx = &obCtx{shape: sc, pre: pre, post: o.St, rets: o.Rets, con: con}
					e.emit(o.St, ob)
				}
			}
		}()
	}
	// every loop finished within the visit bound on every scenario path (a failed
	// instance is emitted where the bound is exceeded on concrete data)
	e.sink(&Oblig{Kind: "termination", Name: con.Func + "/termination(bounded)", Goal: tTrue, PathNo: 0, Tags: append(append([]string{}, con.Props...), "C18"), Func: con.Func, Where: fmt.Sprintf("all loops finish within %d visits per block on %d scenario shapes", maxBlockVisits, len(shapes))})
	return res
}

// evalCarve evaluates a carve-out predicate; it may mention the skolem `x`.
func (c *EvalCtx) evalCarve(n *Node, sk []*T) *T {
	env := copyEnv(c.env)
	for _, s := range sk {
		base := s.Name
		if i := strings.Index(base, "!"); i >= 0 {
			base = base[:i]
		}
		env[base] = s
	}
	return c.sub(env).evalBool(n)
}

// frameGoal states that every cell of the pre-state is unchanged in post,
// except the exempt locations.
func frameGoal(pre, post *State, exempt map[string]bool) *T {
	var cs []*T
	for _, c := range sortedCells(pre.Heap) {
		cs = append(cs, sameVal(pre.Heap[c], post.Heap[c], fmt.Sprint(c), exempt))
	}
	return mkAnd(cs...)
}

func sameVal(a, b Val, loc string, exempt map[string]bool) *T {
	if exempt[loc] {
		return tTrue
	}
	switch x := a.(type) {
	case *T:
		y, ok := b.(*T)
		if !ok {
			return tFalse
		}
		return mkEq(x, y)
	case Ref:
		y, ok := b.(Ref)
		return mkBool(ok && x == y)
	case Text:
		y, ok := b.(Text)
		if !ok {
			return tFalse
		}
		t, ok := textEq(x, y)
		if !ok {
			return tFalse
		}
		return t
	case Iface:
		y, ok := b.(Iface)
		if !ok {
			return tFalse
		}
		if x.Dyn == nil || y.Dyn == nil {
			return mkBool(x.Dyn == nil && y.Dyn == nil)
		}
		if x.Dyn.String() != y.Dyn.String() {
			return tFalse
		}
		return sameVal(x.V, y.V, loc+"^", exempt)
	case *Agg:
		y, ok := b.(*Agg)
		if !ok || len(x.Elems) != len(y.Elems) {
			return tFalse
		}
		if x == y {
			return tTrue
		}
		var cs []*T
		for i := range x.Elems {
			cs = append(cs, sameVal(x.Elems[i], y.Elems[i], fmt.Sprintf("%s/%d", loc, i), exempt))
		}
		return mkAnd(cs...)
	case SliceV:
		y, ok := b.(SliceV)
		return mkBool(ok && x == y)
	case MapV:
		y, ok := b.(MapV)
		return mkBool(ok && x == y)
	case *MapAgg:
		return mkBool(a == b)
	case Opaque:
		y, ok := b.(Opaque)
		return mkBool(ok && x.Tag == y.Tag)
	case Closure:
		y, ok := b.(Closure)
		return mkBool(ok && x.Fn == y.Fn)
	case nil:
		return mkBool(b == nil)
	}
	return tFalse
}

func emittedOf(s *State) Text {
	r, ok := s.Ghost["harness:out"].(Ref)
	if !ok {
		return Text{}
	}
	em := s.load(r).(*Agg)
	t, _ := s.Ghost[sbKey(r.sub(structFieldIndex(em.Typ, "sb")))].(Text)
	return t
}

var (
	reJSONDecode = regexp.MustCompile(`json\.Unmarshal\(value, (&[A-Za-z_.]+)\)`)
	reYAMLDecode = regexp.MustCompile(`value\.Decode\((&[A-Za-z_.]+)\)`)
	reHeader     = regexp.MustCompile(`func \(j \*([^)]+)\) Unmarshal(JSON|YAML)\(value (\[\]byte|\*yaml\.Node)\) error \{`)
)

// normalizeUnmarshal maps the JSON and the YAML rendering of an unmarshal
// method to a common form: header, decode calls; comment lines dropped.
func normalizeUnmarshal(t Text) string {
	var lines []string
	for _, l := range strings.Split(t.String(), "\n") {
		if strings.Contains(l, "\x00COMMENT ") {
			continue
		}
		l = reJSONDecode.ReplaceAllString(l, "DECODE($1)")
		l = reYAMLDecode.ReplaceAllString(l, "DECODE($1)")
		l = reHeader.ReplaceAllString(l, "func (j *$1) UNMARSHAL(value) error {")
		lines = append(lines, strings.TrimSpace(l))
	}
	return strings.Join(lines, "\n")
}

func firstDiff(a, b string) string {
	la, lb := strings.Split(a, "\n"), strings.Split(b, "\n")
	for i := 0; i < len(la) || i < len(lb); i++ {
		x, y := "", ""
		if i < len(la) {
			x = la[i]
		}
		if i < len(lb) {
			y = lb[i]
		}
		if x != y {
			return fmt.Sprintf("line %d: %q vs twin %q", i+1, x, y)
		}
	}
	return "identical"
}
