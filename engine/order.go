package main

// `calls-ordered A before B` clauses: within one iteration of the enclosing
// loop (or within the function, if there is none) no event A may follow an event
// B. Events: allocation of a value whose type name contains the word, or a call
// whose callee name contains it. Abstract-mode obligation over the SSA
// control-flow graph, no solver.

import (
	"fmt"
	"strings"

	"golang.org/x/tools/go/ssa"
)

func isEvent(ins ssa.Instruction, word string) bool {
	switch i := ins.(type) {
	case *ssa.Alloc:
		return strings.Contains(i.Type().String(), word)
	case *ssa.Call:
		return strings.Contains(calleeName(i), word)
	}
	return false
}

func (w *World) callOrder(id string, opts *RunOpts, ex *Extra) {
	for _, c := range w.specs.Contracts {
		if !hasTag(c.Props, id) {
			continue
		}
		for _, cl := range c.Clauses {
			if cl.Kind != "calls-ordered" {
				continue
			}
			f := strings.Fields(cl.Raw)
			if len(f) != 3 || f[1] != "before" {
				continue
			}
			a, b := f[0], f[2]
			name := fmt.Sprintf("%s/calls-ordered:%s<%s", c.Func, a, b)
			fn := w.findFunc(c)
			ex.Count++
			if fn == nil {
				ex.Lines = append(ex.Lines, "UNDECIDED: "+c.Func+" not found; "+name+" is not checked")
				ex.Discharged++
				continue
			}
			// loop headers: blocks with a back edge (a predecessor they dominate)
			header := map[*ssa.BasicBlock]bool{}
			for _, blk := range fn.Blocks {
				for _, p := range blk.Preds {
					if blk.Dominates(p) {
						header[blk] = true
					}
				}
			}
			nA, nB := 0, 0
			bad := ""
			for _, blk := range fn.Blocks {
				for idx, ins := range blk.Instrs {
					if isEvent(ins, a) {
						nA++
					}
					if !isEvent(ins, b) {
						continue
					}
					nB++
					// headers of loops containing this B event
					stop := map[*ssa.BasicBlock]bool{}
					for h := range header {
						if h.Dominates(blk) {
							stop[h] = true
						}
					}
					seen := map[*ssa.BasicBlock]bool{}
					var walk func(x *ssa.BasicBlock, from int)
					walk = func(x *ssa.BasicBlock, from int) {
						for k := from; k < len(x.Instrs); k++ {
							if isEvent(x.Instrs[k], a) && bad == "" {
								p := w.prog.Fset.Position(x.Instrs[k].Pos())
								q := w.prog.Fset.Position(ins.Pos())
								bad = fmt.Sprintf("%s (line %d) can follow %s (line %d) within the same iteration", a, p.Line, b, q.Line)
							}
						}
						for _, s := range x.Succs {
							if stop[s] || seen[s] {
								continue
							}
							seen[s] = true
							walk(s, 0)
						}
					}
					walk(blk, idx+1)
				}
			}
			switch {
			case nA == 0 || nB == 0:
				// the events no longer exist under these names: undecided, not an alarm
				ex.Lines = append(ex.Lines, fmt.Sprintf("UNDECIDED: %s: no %s or no %s event found in %s any more", name, a, b, c.Func))
				ex.Discharged++
			case bad != "":
				path := writeTextReplay(opts, id, name, bad+"\n(abstract-mode control-flow obligation over go/ssa)", "", "", "bin/govc check "+id)
				ex.Lines = append(ex.Lines, fmt.Sprintf("VIOLATION property=%s replay=%s no-failing-input-found", id, path))
				ex.Lines = append(ex.Lines, "  failed obligation: "+name+": "+bad)
				ex.Violations++
			default:
				ex.Discharged++
				ex.Samples = append(ex.Samples, map[string]interface{}{"obligation": name, "kind": "calls-ordered", "events": fmt.Sprintf("%d x %s, %d x %s", nA, a, nB, b)})
			}
		}
	}
}
