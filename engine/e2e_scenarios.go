package main

// End-to-end replay of stage-2 obligations: the failing query's shape and model
// are turned into a schema and documents; the real generator and the code it
// emits decide. `option e2e <kind> <accept-expr>` in the contract selects the
// scenario builder and gives the property's verdict as a spec expression.

import (
	"encoding/json"
	"fmt"
	"math/big"
	"strconv"
	"strings"
)

func (cz *concretizer) shape(cx *obCtx) (*State, []Val) {
	st := newState()
	*st.Next = *cx.pre.Next
	st.CellTypes = cx.pre.CellTypes
	for _, c := range sortedCells(cx.pre.Heap) {
		st.Heap[c] = cz.val(cx.pre.Heap[c])
	}
	for k, v := range cx.pre.Ghost {
		st.Ghost[k] = v
	}
	var args []Val
	for _, a := range cx.shape.Args {
		args = append(args, cz.val(a))
	}
	return st, args
}

func jsonNum(t *T) (string, bool) {
	if t == nil || t.Op != "num" {
		return "", false
	}
	if t.Num.IsInt() {
		return t.Num.Num().String(), true
	}
	f, exact := t.Num.Float64()
	if !exact {
		r := new(big.Rat)
		r.SetFloat64(f)
		if r.Cmp(t.Num) != 0 {
			return strconv.FormatFloat(f, 'g', -1, 64), false
		}
	}
	return strconv.FormatFloat(f, 'g', -1, 64), true
}

type fieldView struct {
	st  *State
	agg *Agg
}

func (f fieldView) get(name string) Val {
	i := structFieldIndex(f.agg.Typ, name)
	if i < 0 {
		unsupported("e2e: no field %s", name)
	}
	return f.agg.Elems[i]
}

func (f fieldView) num(name string) (*T, bool) {
	r, ok := f.get(name).(Ref)
	if !ok || r.isNil() {
		return nil, false
	}
	t, ok := f.st.load(r).(*T)
	return t, ok
}

func (f fieldView) anyv(name string) (Iface, bool) {
	r, ok := f.get(name).(Ref)
	if !ok || r.isNil() {
		return Iface{}, false
	}
	iv, ok := f.st.load(r).(Iface)
	return iv, ok
}

func (f fieldView) boolv(name string) bool {
	t, ok := f.get(name).(*T)
	return ok && t.isTrue()
}

func (f fieldView) intv(name string) int64 {
	t, ok := f.get(name).(*T)
	if !ok {
		return 0
	}
	i, _ := t.intVal()
	return i
}

func e2eReplay(opts *RunOpts, w *World, q *Oblig) (out *ReplayOutcome) {
	cx := q.ctx
	if cx == nil || cx.shape == nil || cx.con == nil {
		return nil
	}
	spec, ok := cx.con.option("e2e")
	if !ok {
		return nil
	}
	parts := strings.SplitN(strings.TrimSpace(spec), " ", 2)
	kind := parts[0]
	acceptExpr := ""
	if len(parts) > 1 {
		acceptExpr = parts[1]
	}
	out = &ReplayOutcome{}
	defer func() {
		if r := recover(); r != nil {
			switch p := r.(type) {
			case execPanic:
				out = &ReplayOutcome{Note: "e2e replay not possible: " + p.msg}
			case specPanic:
				out = &ReplayOutcome{Note: "e2e replay not possible: " + p.msg}
			default:
				panic(r)
			}
		}
	}()
	cz := &concretizer{model: map[string]*T{}, atoms: map[string]string{}}
	for k, v := range q.Res.Model {
		cz.model[k] = v
	}
	st, args := cz.shape(cx)
	fn := w.findFunc(cx.con)
	env := map[string]Val{}
	for i, p := range fn.Params {
		env[p.Name()] = args[i]
	}
	recv, ok := args[0].(Ref)
	if !ok || recv.isNil() {
		return &ReplayOutcome{Note: "e2e: receiver shape not understood"}
	}
	fv := fieldView{st: st, agg: st.load(recv).(*Agg)}
	// the skolem (document value)
	var xval *T
	for k, v := range cz.model {
		if strings.HasPrefix(k, "x!") {
			xval = cz.term(mkVar(k, v.Sort))
		}
	}
	expectFor := func(x Val) string {
		if acceptExpr == "" {
			return "accept"
		}
		n, err := parseExpr(acceptExpr, "e2e-accept")
		if err != nil {
			unsupported("e2e accept expression: %v", err)
		}
		env2 := copyEnv(env)
		env2["x"] = x
		ctx := &EvalCtx{sp: w.specs, env: env2, st: st, old: st}
		t := cz.term(ctx.evalBool(n))
		if !t.isConst() {
			unsupported("e2e: expected verdict not concrete: %s", t)
		}
		if t.isTrue() {
			return "accept"
		}
		return "reject"
	}
	var c *E2ECase
	switch kind {
	case "numeric":
		c = numericCase(fv, xval, expectFor, cz)
	case "string":
		c = stringCase(fv, cz, expectFor)
	case "array":
		c = arrayCase(fv, cz, expectFor)
	default:
		return &ReplayOutcome{Note: "e2e: unknown scenario kind " + kind}
	}
	if c == nil {
		return &ReplayOutcome{Note: "e2e: scenario could not be built from this model"}
	}
	r, err := runE2E(opts, c)
	if err != nil {
		return &ReplayOutcome{Note: "e2e: " + err.Error()}
	}
	viol := c.violations(r)
	cb, _ := json.Marshal(c)
	out.Input = string(cb)
	var vs []string
	for i, v := range r.Verdicts {
		vs = append(vs, fmt.Sprintf("%s -> %s %s", c.Docs[i].Doc, v.Verdict, v.Err))
	}
	out.Output = strings.Join(vs, "\n") + "\n" + r.CompileError + r.GenError + r.GenPanic
	out.Command = "bin/govc e2e <case.json>  (case = replay_input)"
	out.Reproduced = len(viol) > 0
	if out.Reproduced {
		out.Note = "end to end on the real generator and the code it emits: " + strings.Join(viol, "; ")
	} else {
		out.Note = "the real generated code behaved as the property demands on this input"
	}
	return out
}

func numericCase(fv fieldView, x *T, expectFor func(Val) string, cz *concretizer) *E2ECase {
	prop := map[string]interface{}{}
	isInt := fv.boolv("roundToInt")
	if isInt {
		prop["type"] = "integer"
	} else {
		prop["type"] = "number"
	}
	okAll := true
	put := func(key, field string) {
		if t, ok := fv.num(field); ok {
			s, exact := jsonNum(t)
			okAll = okAll && exact
			prop[key] = json.RawMessage(s)
		}
	}
	put("minimum", "minimum")
	put("maximum", "maximum")
	put("multipleOf", "multipleOf")
	for _, k := range []string{"exclusiveMinimum", "exclusiveMaximum"} {
		if iv, ok := fv.anyv(k); ok {
			switch t := iv.V.(type) {
			case *T:
				if t.Sort == SBool {
					prop[k] = t.isTrue()
				} else {
					s, exact := jsonNum(t)
					okAll = okAll && exact
					prop[k] = json.RawMessage(s)
				}
			case Text:
				cs, _ := t.concrete()
				prop[k] = cs
			}
		}
	}
	if !okAll {
		return nil
	}
	schema := map[string]interface{}{"type": "object", "properties": map[string]interface{}{"f": prop}}
	nillable := fv.boolv("isNillable")
	if !nillable {
		schema["required"] = []string{"f"}
	}
	sb, _ := json.Marshal(schema)
	c := &E2ECase{Name: "numeric", Schemas: map[string]string{"s.json": string(sb)}, Entries: []string{"s.json"}, Type: "SJson"}
	if x != nil {
		xs, exact := jsonNum(x)
		if !exact {
			return nil
		}
		c.Docs = append(c.Docs, E2EDoc{Doc: `{"f": ` + xs + `}`, Expect: expectFor(x), Note: "model value"})
	}
	if nillable {
		c.Docs = append(c.Docs, E2EDoc{Doc: `{}`, Expect: "accept", Note: "absent optional value is never checked"})
		c.Docs = append(c.Docs, E2EDoc{Doc: `{"f": null}`, Expect: "accept", Note: "null optional value is never checked"})
	}
	if len(c.Docs) == 0 {
		return nil
	}
	return c
}

func stringCase(fv fieldView, cz *concretizer, expectFor func(Val) string) *E2ECase {
	prop := map[string]interface{}{"type": "string"}
	minL, maxL := fv.intv("minLength"), fv.intv("maxLength")
	if minL != 0 {
		prop["minLength"] = minL
	}
	if maxL != 0 {
		prop["maxLength"] = maxL
	}
	pat, _ := fv.get("pattern").(Text)
	hasPat := false
	if ps, ok := pat.concrete(); ok && ps != "" {
		hasPat = true
		prop["pattern"] = "^m+é*$"
	}
	schema := map[string]interface{}{"type": "object", "properties": map[string]interface{}{"f": prop}}
	nillable := fv.boolv("isNillable")
	if !nillable {
		schema["required"] = []string{"f"}
	}
	sb, _ := json.Marshal(schema)
	c := &E2ECase{Name: "string", Schemas: map[string]string{"s.json": string(sb)}, Entries: []string{"s.json"}, Type: "SJson"}
	// the model gives bytes, runes and matched
	get := func(prefix string) (int64, bool) {
		for k, v := range cz.model {
			if strings.HasPrefix(k, prefix+"!") {
				i, ok := v.intVal()
				return i, ok
			}
		}
		return 0, false
	}
	bytes, ok1 := get("nb")
	runes, ok2 := get("nr")
	matched := true
	for k, v := range cz.model {
		if strings.HasPrefix(k, "mt!") {
			matched = v.isTrue()
		}
	}
	if ok1 && ok2 && runes >= 0 && bytes >= runes && bytes <= 4*runes && runes <= 100000 {
		// build a string with that many runes and bytes: 'm' (1 byte) and 'é' (2), '€' (3), '𝄞' (4)
		extra := bytes - runes
		var sbd strings.Builder
		n := runes
		if hasPat && !matched && n > 0 {
			sbd.WriteString("x") // breaks ^m+é*$
			n--
		}
		var tail []string
		for n > 0 {
			switch {
			case extra >= 3 && !hasPat:
				tail = append(tail, "𝄞")
				extra -= 3
			case extra >= 2 && !hasPat:
				tail = append(tail, "€")
				extra -= 2
			case extra >= 1:
				tail = append(tail, "é")
				extra--
			default:
				sbd.WriteString("m")
			}
			n--
		}
		s := sbd.String() + strings.Join(tail, "")
		if extra == 0 && (!hasPat || matched == (len(s) > 0 && strings.HasPrefix(s, "m"))) {
			gs := GenStr{Bytes: mkInt(bytes), Runes: mkInt(runes), Matched: mkBool(matched)}
			db, _ := json.Marshal(map[string]string{"f": s})
			c.Docs = append(c.Docs, E2EDoc{Doc: string(db), Expect: expectFor(gs), Note: fmt.Sprintf("%d characters, %d bytes, pattern matched=%v", runes, bytes, matched)})
		}
	}
	if nillable {
		c.Docs = append(c.Docs, E2EDoc{Doc: `{}`, Expect: "accept", Note: "absent optional string is never checked"})
		c.Docs = append(c.Docs, E2EDoc{Doc: `{"f": null}`, Expect: "accept", Note: "null optional string is never checked"})
	}
	if len(c.Docs) == 0 {
		return nil
	}
	return c
}

func arrayCase(fv fieldView, cz *concretizer, expectFor func(Val) string) *E2ECase {
	depth := fv.intv("arrayDepth")
	minI, maxI := fv.intv("minItems"), fv.intv("maxItems")
	if depth < 1 || depth > 6 {
		return nil
	}
	// nested array schema with the limits at level `depth` ... but the generator
	// only builds such validators itself; state the limits at every level so the
	// level under test carries them whichever level the attach code reads.
	var mk func(level int64) map[string]interface{}
	mk = func(level int64) map[string]interface{} {
		m := map[string]interface{}{"type": "array"}
		if minI != 0 {
			m["minItems"] = minI
		}
		if maxI != 0 {
			m["maxItems"] = maxI
		}
		if level < depth {
			m["items"] = mk(level + 1)
		} else {
			m["items"] = map[string]interface{}{"type": "integer"}
		}
		return m
	}
	schema := map[string]interface{}{"type": "object", "properties": map[string]interface{}{"f": mk(1)}, "required": []string{"f"}}
	sb, _ := json.Marshal(schema)
	c := &E2ECase{Name: "array", Schemas: map[string]string{"s.json": string(sb)}, Entries: []string{"s.json"}, Type: "SJson"}
	var ln int64 = -1
	isNil := false
	for k, v := range cz.model {
		if strings.HasPrefix(k, "alen!") {
			ln, _ = v.intVal()
		}
		if strings.HasPrefix(k, "anil!") {
			isNil = v.isTrue()
		}
	}
	if ln < 0 || ln > 2000 {
		return nil
	}
	// a document whose arrays all have a length inside the limits, except one
	// array at the level under test, which has length ln (or is null)
	okLen := minI
	if okLen == 0 {
		okLen = 1
	}
	if maxI != 0 && okLen > maxI {
		return nil
	}
	var build func(level int64, bad bool) string
	build = func(level int64, bad bool) string {
		n := okLen
		if bad && level == depth {
			if isNil {
				return "null"
			}
			n = ln
		}
		var els []string
		for i := int64(0); i < n; i++ {
			if level < depth {
				els = append(els, build(level+1, bad && i == 0))
			} else {
				els = append(els, "1")
			}
		}
		return "[" + strings.Join(els, ",") + "]"
	}
	gs := GenSlice{IsNil: mkBool(isNil), Len: mkInt(ln)}
	c.Docs = append(c.Docs, E2EDoc{Doc: `{"f": ` + build(1, true) + `}`, Expect: expectFor(gs), Note: fmt.Sprintf("level-%d array of length %d (null=%v)", depth, ln, isNil)})
	return c
}
