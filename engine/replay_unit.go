package main

// Unit replay: a solver model is turned into concrete inputs; (a) the engine
// re-executes the function on them and re-evaluates the failed clause, (b) an
// in-package Go test, injected with `go test -overlay`, runs the REAL function
// on the same inputs and prints its results and the final contents of every
// input cell in a canonical form. The violation counts as reproduced on the
// real code iff the clause is false on the engine's concrete run AND the real
// run produced exactly the outputs the engine predicted.

import (
	"encoding/json"
	"fmt"
	"go/types"
	"math/big"
	"os"
	"os/exec"
	"path/filepath"
	"sort"
	"strconv"
	"strings"
)

type concretizer struct {
	model   map[string]*T
	rounded []string
	atoms   map[string]string
}

func (c *concretizer) term(t *T) *T {
	vars := map[string]Sort{}
	freeVars(t, vars)
	m := map[string]*T{}
	for name, s := range vars {
		v, ok := c.model[name]
		if !ok {
			switch s {
			case SBool:
				v = tFalse
			case SInt:
				v = mkInt(0)
			default:
				v = mkReal(ratInt(0))
			}
			c.model[name] = v
		}
		if s == SReal && v.Op == "num" {
			f, exact := v.Num.Float64()
			if !exact {
				r := new(big.Rat)
				r.SetFloat64(f)
				c.rounded = append(c.rounded, fmt.Sprintf("%s: %s rounded to float64 %v", name, v.Num.RatString(), f))
				v = mkReal(r)
				c.model[name] = v
			}
		}
		m[name] = v
	}
	return subst(t, m)
}

func (c *concretizer) text(t Text) Text {
	out := Text{}
	for _, f := range t.Frags {
		switch f.Kind {
		case FLit:
			out = out.concat(lit(f.Lit))
		case FAtom:
			s, ok := c.atoms[f.Atom]
			if !ok {
				if v, has := c.model["empty!"+f.Atom]; has && v.isTrue() {
					s = ""
				} else {
					s = fmt.Sprintf("A%d", len(c.atoms)+1)
				}
				c.atoms[f.Atom] = s
			}
			out = out.concat(lit(s))
		case FNum:
			unsupported("replay: numeric hole in input text")
		}
	}
	return out
}

func (c *concretizer) val(v Val) Val {
	switch x := v.(type) {
	case *T:
		return c.term(x)
	case Text:
		return c.text(x)
	case *Agg:
		n := &Agg{Typ: x.Typ}
		for _, e := range x.Elems {
			n.Elems = append(n.Elems, c.val(e))
		}
		return n
	case Iface:
		if x.Dyn == nil {
			return x
		}
		return Iface{Dyn: x.Dyn, V: c.val(x.V)}
	case Tuple:
		var n Tuple
		for _, e := range x {
			n = append(n, c.val(e))
		}
		return n
	}
	return v
}

type goGen struct {
	pkg     *types.Package
	imports map[string]string // path -> name
	st      *State
}

func (g *goGen) qual(p *types.Package) string {
	if p == g.pkg {
		return ""
	}
	g.imports[p.Path()] = p.Name()
	return p.Name()
}

func (g *goGen) typ(t types.Type) string { return types.TypeString(t, g.qual) }

func ratToFloatLit(r *big.Rat) string {
	f, _ := r.Float64()
	return "float64(" + strconv.FormatFloat(f, 'g', -1, 64) + ")"
}

func (g *goGen) expr(v Val, t types.Type) string {
	switch x := v.(type) {
	case *T:
		if !x.isConst() {
			unsupported("replay: non-concrete input %s", x)
		}
		switch x.Sort {
		case SBool:
			return fmt.Sprint(x.B)
		case SInt:
			return g.typ(t) + "(" + x.Num.Num().String() + ")"
		default:
			return ratToFloatLit(x.Num)
		}
	case Text:
		s, ok := x.concrete()
		if !ok {
			unsupported("replay: non-concrete string")
		}
		if isNamed(t) {
			return g.typ(t) + "(" + strconv.Quote(s) + ")"
		}
		return strconv.Quote(s)
	case Ref:
		if x.isNil() {
			return "nil"
		}
		if x.Path != "" {
			unsupported("replay: interior pointer input")
		}
		return fmt.Sprintf("c%d", x.Cell)
	case Iface:
		if x.Dyn == nil {
			return "nil"
		}
		if x.Dyn == errDynType {
			unsupported("replay: abstract interface input")
		}
		return g.typ(t) + "(" + g.expr(x.V, x.Dyn) + ")"
	case *Agg:
		st, ok := t.Underlying().(*types.Struct)
		if !ok {
			unsupported("replay: array input")
		}
		var fs []string
		for i, e := range x.Elems {
			fs = append(fs, st.Field(i).Name()+": "+g.expr(e, st.Field(i).Type()))
		}
		return g.typ(t) + "{" + strings.Join(fs, ", ") + "}"
	case SliceV:
		if x.Arr.isNil() {
			return "nil"
		}
		el := t.Underlying().(*types.Slice).Elem()
		var es []string
		for i := 0; i < x.Len_; i++ {
			es = append(es, g.expr(g.st.load(x.Arr.sub(x.Lo+i)), el))
		}
		return g.typ(t) + "{" + strings.Join(es, ", ") + "}"
	case Opaque:
		if sig, ok := x.Typ.Underlying().(*types.Signature); ok && sig.Results().Len() == 0 {
			return g.typ(x.Typ) + " {}"
		}
		unsupported("replay: opaque input %s", x.Tag)
	case MapV:
		if x.Cell == 0 {
			return "nil"
		}
	}
	unsupported("replay: input of kind %T", v)
	return ""
}

// canonVal renders a concrete engine value exactly as the Go-side canon does.
func canonVal(st *State, v Val, inputCells map[int]bool, depth int) string {
	if depth > 12 {
		return "…"
	}
	switch x := v.(type) {
	case *T:
		if !x.isConst() {
			return "?sym(" + x.String() + ")"
		}
		switch x.Sort {
		case SBool:
			return fmt.Sprint(x.B)
		default:
			return x.Num.RatString()
		}
	case Text:
		s, ok := x.concrete()
		if !ok {
			return "?text(" + x.String() + ")"
		}
		return strconv.Quote(s)
	case Ref:
		if x.isNil() {
			return "nil"
		}
		if inputCells[x.Cell] && x.Path == "" {
			return fmt.Sprintf("in:%d", x.Cell)
		}
		return "&" + canonVal(st, st.load(x), inputCells, depth+1)
	case Iface:
		if x.Dyn == nil {
			return "nil-iface"
		}
		if x.Dyn == errDynType {
			return "error"
		}
		return types.TypeString(x.Dyn, func(p *types.Package) string { return p.Name() }) + "(" + canonVal(st, x.V, inputCells, depth+1) + ")"
	case *Agg:
		var parts []string
		var stt *types.Struct
		if x.Typ != nil {
			stt, _ = x.Typ.Underlying().(*types.Struct)
		}
		for i, e := range x.Elems {
			if stt != nil {
				parts = append(parts, stt.Field(i).Name()+":"+canonVal(st, e, inputCells, depth+1))
			} else {
				parts = append(parts, canonVal(st, e, inputCells, depth+1))
			}
		}
		if stt != nil {
			return "{" + strings.Join(parts, " ") + "}"
		}
		return "[" + strings.Join(parts, ", ") + "]"
	case SliceV:
		if x.Arr.isNil() || x.Len_ == 0 {
			return "[]"
		}
		var parts []string
		for i := 0; i < x.Len_; i++ {
			parts = append(parts, canonVal(st, st.load(x.Arr.sub(x.Lo+i)), inputCells, depth+1))
		}
		return "[" + strings.Join(parts, ", ") + "]"
	case MapV:
		return "map"
	case Closure, Opaque:
		return "func"
	}
	return fmt.Sprintf("?%T", v)
}

const canonGo = `
func govcCanon(v reflect.Value, cells map[uintptr]int, depth int) string {
	if depth > 12 { return "…" }
	if !v.IsValid() { return "nil-iface" }
	errT := reflect.TypeOf((*error)(nil)).Elem()
	switch v.Kind() {
	case reflect.Bool:
		return fmt.Sprint(v.Bool())
	case reflect.Int, reflect.Int8, reflect.Int16, reflect.Int32, reflect.Int64:
		return fmt.Sprint(v.Int())
	case reflect.Uint, reflect.Uint8, reflect.Uint16, reflect.Uint32, reflect.Uint64:
		return fmt.Sprint(v.Uint())
	case reflect.Float64, reflect.Float32:
		r := new(big.Rat)
		if r.SetFloat64(v.Float()) == nil { return "nonfinite" }
		return r.RatString()
	case reflect.String:
		return strconv.Quote(v.String())
	case reflect.Ptr:
		if v.IsNil() { return "nil" }
		if k, ok := cells[v.Pointer()]; ok { return fmt.Sprintf("in:%d", k) }
		return "&" + govcCanon(v.Elem(), cells, depth+1)
	case reflect.Interface:
		if v.IsNil() { return "nil-iface" }
		if v.Type() == errT { return "error" }
		return v.Elem().Type().String() + "(" + govcCanon(v.Elem(), cells, depth+1) + ")"
	case reflect.Struct:
		var parts []string
		for i := 0; i < v.NumField(); i++ {
			parts = append(parts, v.Type().Field(i).Name+":"+govcCanon(v.Field(i), cells, depth+1))
		}
		return "{" + strings.Join(parts, " ") + "}"
	case reflect.Slice, reflect.Array:
		if v.Len() == 0 { return "[]" }
		var parts []string
		for i := 0; i < v.Len(); i++ { parts = append(parts, govcCanon(v.Index(i), cells, depth+1)) }
		return "[" + strings.Join(parts, ", ") + "]"
	case reflect.Map:
		return "map"
	case reflect.Func:
		return "func"
	}
	return "?" + v.Kind().String()
}
`

func unitReplay(opts *RunOpts, w *World, q *Oblig) (out *ReplayOutcome) {
	cx := q.ctx
	if cx == nil || cx.shape == nil {
		return nil
	}
	out = &ReplayOutcome{}
	defer func() {
		if r := recover(); r != nil {
			switch p := r.(type) {
			case execPanic:
				out = &ReplayOutcome{Note: "replay not possible: " + p.msg}
			case specPanic:
				out = &ReplayOutcome{Note: "replay not possible: " + p.msg}
			default:
				// a replay must never take the check down: the violation stands, the
				// replay is reported as not possible
				out = &ReplayOutcome{Note: fmt.Sprintf("replay not possible: the concrete re-run failed (%v)", r)}
			}
		}
	}()
	if _, ok := cx.con.option("call-result"); ok {
		return &ReplayOutcome{Note: "unit replay of a returned closure is not implemented; the obligation is syntactic on the emitted skeleton (see goal/where)"}
	}
	fn := w.findFunc(cx.con)
	cz := &concretizer{model: map[string]*T{}, atoms: map[string]string{}}
	for k, v := range q.Res.Model {
		cz.model[k] = v
	}
	// concrete initial state
	st := newState()
	*st.Next = *cx.pre.Next
	st.CellTypes = cx.pre.CellTypes
	inputCells := map[int]bool{}
	for _, c := range sortedCells(cx.pre.Heap) {
		st.Heap[c] = cz.val(cx.pre.Heap[c])
		inputCells[c] = true
	}
	var args []Val
	for _, a := range cx.shape.Args {
		args = append(args, cz.val(a))
	}
	pre := st.snapshot()
	// (a) engine on concrete inputs
	e := &Exec{w: w, fnUnder: fn, conUnder: cx.con, stats: newFuncStats(cx.con.Func), callSeq: map[string]int{}, noContract: map[string]bool{}}
	for _, c := range w.specs.Contracts { // concrete replay inlines callees: the real code is what runs
		e.noContract[c.target()] = true
	}
	e.sink = func(ob *Oblig) {
		if ob.Kind == "safety" && ob.Goal.isFalse() {
			e.safetyHits = append(e.safetyHits, ob.Name)
		}
	}
	outs := e.run(st.clone(), fn, args)
	if len(outs) != 1 {
		return &ReplayOutcome{Note: fmt.Sprintf("replay: concrete inputs did not select a single path (%d)", len(outs))}
	}
	o := outs[0]
	var predicted []string
	violated := false
	switch {
	case o.Panic != "" || (q.Kind == "safety" && len(e.safetyHits) > 0):
		predicted = append(predicted, "GOVC-PANIC")
		violated = q.Kind == "safety"
		if o.Panic == "" {
			o.Panic = "safety obligation false on the concrete run"
		}
	default:
		for k, r := range o.Rets {
			predicted = append(predicted, fmt.Sprintf("GOVC-RESULT %d %s", k, canonVal(o.St, r, inputCells, 0)))
		}
		for _, c := range sortedCells(pre.Heap) {
			if isEmitterType(pre.CellTypes[c]) {
				em := o.St.Heap[c].(*Agg)
				t, _ := o.St.Ghost[sbKey(Ref{Cell: c}.sub(structFieldIndex(em.Typ, "sb")))].(Text)
				cs, _ := cz.text(t).concrete()
				predicted = append(predicted, fmt.Sprintf("GOVC-CELL %d %s", c, strconv.Quote(cs)))
				continue
			}
			predicted = append(predicted, fmt.Sprintf("GOVC-CELL %d %s", c, canonVal(o.St, o.St.Heap[c], inputCells, 0)))
		}
		switch q.Kind {
		case "ensures":
			env := copyEnv(map[string]Val{})
			for i, p := range fn.Params {
				env[p.Name()] = args[i]
			}
			bindResults(env, o.Rets)
			var sk []*T
			ctx := &EvalCtx{sp: w.specs, env: env, st: o.St, old: pre, skolems: &sk, ex: e, origin: q.Name}
			goal := cz.term(ctx.evalClause(cx.clause.Expr))
			if !goal.isConst() {
				return &ReplayOutcome{Note: "replay: clause did not evaluate to a constant on the concrete run: " + goal.String()}
			}
			violated = goal.isFalse()
		case "frame":
			violated = cz.term(frameGoal(pre, o.St, map[string]bool{})).isFalse()
		}
	}
	out.Input = describeInputs(pre, args, fn.Params, cz)
	if !violated {
		out.Note = "the model did not survive concretisation (rounded to float64: " + strings.Join(cz.rounded, "; ") + "); no failing input from this model"
		return out
	}
	// (b) the real code
	g := &goGen{pkg: fn.Pkg.Pkg, imports: map[string]string{}, st: pre}
	var body strings.Builder
	for _, c := range sortedCells(pre.Heap) {
		t := pre.CellTypes[c]
		if t == nil {
			unsupported("replay: input cell %d has no recorded type", c)
		}
		fmt.Fprintf(&body, "\tc%d := new(%s)\n", c, g.typ(t))
	}
	for _, c := range sortedCells(pre.Heap) {
		if isEmitterType(pre.CellTypes[c]) {
			fmt.Fprintf(&body, "\tc%d = %sNewEmitter(80)\n\tc%d.Indent(1)\n", c, emitterQual(g, pre.CellTypes[c]), c)
			continue
		}
		fmt.Fprintf(&body, "\t*c%d = %s\n", c, g.expr(pre.Heap[c], pre.CellTypes[c]))
	}
	fmt.Fprintf(&body, "\tcells := map[uintptr]int{")
	for _, c := range sortedCells(pre.Heap) {
		fmt.Fprintf(&body, "reflect.ValueOf(c%d).Pointer(): %d, ", c, c)
	}
	fmt.Fprintf(&body, "}\n\t_ = cells\n")
	var argExprs []string
	for i, p := range fn.Params {
		argExprs = append(argExprs, g.expr(args[i], p.Type()))
	}
	nres := fn.Signature.Results().Len()
	var rs []string
	for k := 0; k < nres; k++ {
		rs = append(rs, fmt.Sprintf("r%d", k))
	}
	callee := fn.Name()
	callArgs := argExprs
	if fn.Signature.Recv() != nil {
		fmt.Fprintf(&body, "\trecv := %s\n", argExprs[0])
		callee = "recv." + fn.Name()
		callArgs = argExprs[1:]
	}
	body.WriteString("\tdefer func() { if r := recover(); r != nil { fmt.Println(\"GOVC-PANIC\") } }()\n")
	if nres > 0 {
		fmt.Fprintf(&body, "\t%s := %s(%s)\n", strings.Join(rs, ", "), callee, strings.Join(callArgs, ", "))
	} else {
		fmt.Fprintf(&body, "\t%s(%s)\n", callee, strings.Join(callArgs, ", "))
	}
	for k := 0; k < nres; k++ {
		fmt.Fprintf(&body, "\tfmt.Println(\"GOVC-RESULT %d\", govcCanon(reflect.ValueOf(&r%d).Elem(), cells, 0))\n", k, k)
	}
	for _, c := range sortedCells(pre.Heap) {
		if isEmitterType(pre.CellTypes[c]) {
			fmt.Fprintf(&body, "\tfmt.Println(\"GOVC-CELL %d\", strconv.Quote(c%d.String()))\n", c, c)
			continue
		}
		fmt.Fprintf(&body, "\tfmt.Println(\"GOVC-CELL %d\", govcCanon(reflect.ValueOf(c%d).Elem(), cells, 0))\n", c, c)
	}
	var src strings.Builder
	fmt.Fprintf(&src, "package %s\n\nimport (\n\t\"fmt\"\n\t\"math/big\"\n\t\"reflect\"\n\t\"strconv\"\n\t\"strings\"\n\t\"testing\"\n", fn.Pkg.Pkg.Name())
	var imps []string
	for p := range g.imports {
		imps = append(imps, p)
	}
	sort.Strings(imps)
	for _, p := range imps {
		fmt.Fprintf(&src, "\t%s %q\n", g.imports[p], p)
	}
	src.WriteString(")\n\nvar _ = big.NewRat\nvar _ = strconv.Quote\nvar _ = strings.Join\n" + canonGo + "\nfunc TestGovcReplay(t *testing.T) {\n" + body.String() + "}\n")
	rel := strings.TrimPrefix(fn.Pkg.Pkg.Path(), w.modPath)
	rel = strings.TrimPrefix(rel, "/")
	outText, cmd := runOverlay(opts, rel, src.String(), "TestGovcReplay")
	out.Command = cmd
	out.Output = outText
	var observed []string
	for _, l := range strings.Split(outText, "\n") {
		if strings.HasPrefix(l, "GOVC-") {
			observed = append(observed, strings.TrimSpace(l))
		}
	}
	if o.Panic != "" {
		out.Reproduced = len(observed) > 0 && observed[len(observed)-1] == "GOVC-PANIC"
		if !out.Reproduced {
			out.Note = "engine predicted a panic (" + o.Panic + ") that the real code did not show"
		}
		return out
	}
	if strings.Join(observed, "\n") == strings.Join(predicted, "\n") {
		out.Reproduced = true
		out.Note = "real code produced exactly the outputs predicted by the engine, and the clause is false on them"
		if len(cz.rounded) > 0 {
			out.Note += " (inputs rounded to float64: " + strings.Join(cz.rounded, "; ") + ")"
		}
	} else {
		out.Note = "ENGINE/REAL MISMATCH: predicted\n" + strings.Join(predicted, "\n") + "\nobserved\n" + strings.Join(observed, "\n")
	}
	out.TestSrc = src.String()
	out.TestPkg = rel
	return out
}

func describeInputs(pre *State, args []Val, params interface{}, cz *concretizer) string {
	var parts []string
	for i, a := range args {
		parts = append(parts, fmt.Sprintf("arg%d=%s", i, describe(pre, a, 0)))
	}
	var ks []string
	for k, v := range cz.model {
		if strings.Contains(k, "!") && !strings.HasPrefix(k, "empty!") {
			ks = append(ks, k+"="+v.String())
		}
	}
	sort.Strings(ks)
	return strings.Join(parts, ", ") + " ; " + strings.Join(ks, " ")
}

// runOverlay injects a test file into a package of /repo without writing to it.
func runOverlay(opts *RunOpts, relPkg, src, run string) (string, string) {
	dir, err := os.MkdirTemp("", "govc-replay-")
	if err != nil {
		return "mktemp: " + err.Error(), ""
	}
	defer os.RemoveAll(dir)
	testFile := filepath.Join(dir, "zz_govc_replay_test.go")
	os.WriteFile(testFile, []byte(src), 0o644)
	target := filepath.Join(opts.Repo, relPkg, "zz_govc_replay_test.go")
	ov, _ := json.Marshal(map[string]interface{}{"Replace": map[string]string{target: testFile}})
	ovFile := filepath.Join(dir, "overlay.json")
	os.WriteFile(ovFile, ov, 0o644)
	pkgArg := "./" + relPkg
	if relPkg == "" {
		pkgArg = "."
	}
	cmd := exec.Command("go", "test", "-overlay", ovFile, "-vet=off", "-count=1", "-timeout", "60s", "-run", "^"+run+"$", "-v", pkgArg)
	cmd.Dir = opts.Repo
	cmd.Env = repoEnv()
	outb, _ := cmd.CombinedOutput()
	return string(outb), "cd " + opts.Repo + " && go test -overlay <overlay> -vet=off -count=1 -timeout 60s -run ^" + run + "$ -v " + pkgArg
}

func isEmitterType(t types.Type) bool {
	n, ok := t.(*types.Named)
	return ok && n.Obj().Name() == "Emitter" && n.Obj().Pkg() != nil && strings.HasSuffix(n.Obj().Pkg().Path(), "pkg/codegen")
}

func emitterQual(g *goGen, t types.Type) string {
	q := g.qual(t.(*types.Named).Obj().Pkg())
	if q == "" {
		return ""
	}
	return q + "."
}
