#!/usr/bin/env python3
"""Writes the seeded-change table of DESIGN.md §14 from seeded/*/meta.json."""
import json, glob, os
HERE = os.path.dirname(os.path.dirname(os.path.abspath(__file__)))
rows = []
for d in sorted(glob.glob(os.path.join(HERE, 'seeded', '*'))):
    m = json.load(open(os.path.join(d, 'meta.json')))
    det = m.get('detected_by')
    obl = ''
    for p, o in (m.get('failed_obligations') or {}).items():
        if o:
            obl = o[0].replace('failed obligation: ', '').split(' (')[0][:90]
            break
    summ = (m.get('summary') or '').replace('|', '/').replace('\n', ' ')[:150]
    rows.append((os.path.basename(d), m['property'], summ, ', '.join(det) if det else ('**missed**' if det is not None else 'not run'), obl))
tab = ['| seeded change | property | what it does | caught by | first failing obligation |', '|---|---|---|---|---|']
for r in rows:
    tab.append('| %s | %s | %s | %s | %s |' % r)
caught = sum(1 for r in rows if not r[3].startswith('**') and r[3] != 'not run')
tab.append('')
tab.append('%d of %d seeded changes are caught by the property\'s own quick check (or a sibling\'s, where listed).' % (caught, len(rows)))
s = open(os.path.join(HERE, 'DESIGN.md')).read()
a, b = s.index('<!-- SEED-TABLE-BEGIN -->'), s.index('<!-- SEED-TABLE-END -->')
s = s[:a] + '<!-- SEED-TABLE-BEGIN -->\n' + '\n'.join(tab) + '\n' + s[b:]
open(os.path.join(HERE, 'DESIGN.md'), 'w').write(s)
print(caught, 'of', len(rows))
