package main

// Maps and range loops.

import (
	"golang.org/x/tools/go/ssa"
)

func (e *Exec) mapUpdate(s *State, i *ssa.MapUpdate) string {
	m, ok := e.val(s, i.Map).(MapV)
	if !ok {
		unsupported("map update on %T", e.val(s, i.Map))
	}
	if m.Cell == 0 {
		return "assignment to entry in nil map"
	}
	unsupported("map update not modelled yet")
	return ""
}

func (e *Exec) lookup(s *State, i *ssa.Lookup) Val {
	unsupported("map/string lookup not modelled yet")
	return nil
}

func (e *Exec) rangeNext(s *State, b *ssa.BasicBlock, idx int, prev *ssa.BasicBlock, ins ssa.Instruction) ([]Out, bool) {
	unsupported("range over map/string not modelled yet")
	return nil, true
}

func (e *Exec) abstractInvoke(s *State, c *ssa.Call, recv Iface, args []Val) ([]Out, bool) {
	return nil, false
}
