package main

// Replay of counterexamples on the real code.

import (
	"encoding/json"
	"fmt"
	"os"
	"path/filepath"
	"sort"
)

type ReplayOutcome struct {
	TestSrc    string
	TestPkg    string
	Reproduced bool
	Command    string
	Output     string
	Input      string
	Note       string
}

type ReplayFile struct {
	Property     string            `json:"property"`
	Obligation   string            `json:"obligation"`
	Kind         string            `json:"kind"`
	Function     string            `json:"function"`
	Where        string            `json:"where"`
	Shape        string            `json:"shape"`
	Status       string            `json:"status"`
	Solver       string            `json:"solver"`
	SolverOutput string            `json:"solver_output"`
	Model        map[string]string `json:"model"`
	Goal         string            `json:"goal"`
	Assumptions  []string          `json:"assumptions"`
	FailedOf     string            `json:"failed_queries"`
	Reproduced   bool              `json:"reproduced_on_real_code"`
	ReplayCmd    string            `json:"replay_command,omitempty"`
	ReplayInput  string            `json:"replay_input,omitempty"`
	ReplayOutput string            `json:"replay_output,omitempty"`
	ReplayNote   string            `json:"replay_note,omitempty"`
	TestSource   string            `json:"test_source,omitempty"`
	TestPkg      string            `json:"test_pkg,omitempty"`
}

func writeReplay(opts *RunOpts, id string, n *Named, q *Oblig, w *World) string {
	dir := filepath.Join(opts.Verif, "replays")
	os.MkdirAll(dir, 0o755)
	rf := &ReplayFile{Property: id, Obligation: n.Name, Kind: n.Kind, Function: q.Func, Where: q.Where, Shape: q.Shape,
		Status: q.Res.Status, Solver: q.Res.Solver, SolverOutput: trunc(q.Res.Raw, 4000), Goal: trunc(q.Goal.String(), 4000),
		FailedOf: fmt.Sprintf("%d of %d", len(n.Failed), len(n.Queries)), Model: map[string]string{}}
	for _, a := range q.Assume {
		rf.Assumptions = append(rf.Assumptions, trunc(a.String(), 1000))
	}
	var ks []string
	for k := range q.Res.Model {
		ks = append(ks, k)
	}
	sort.Strings(ks)
	for _, k := range ks {
		rf.Model[k] = q.Res.Model[k].String()
	}
	if q.Res.Status == "sat" {
		if out := tryReplay(opts, w, q); out != nil {
			rf.Reproduced = out.Reproduced
			rf.ReplayCmd = out.Command
			rf.ReplayInput = out.Input
			rf.ReplayOutput = trunc(out.Output, 4000)
			rf.ReplayNote = out.Note
			rf.TestSource = out.TestSrc
			rf.TestPkg = out.TestPkg
		}
	} else {
		rf.ReplayNote = "the solver gave no model (" + q.Res.Status + "); the obligation is reported as failed without a concrete input"
	}
	name := fmt.Sprintf("%s-%s.json", id, sanitize(n.Name))
	path := filepath.Join(dir, name)
	data, _ := json.MarshalIndent(rf, "", " ")
	os.WriteFile(path, append(data, '\n'), 0o644)
	return path
}

func trunc(s string, n int) string {
	if len(s) > n {
		return s[:n] + "…"
	}
	return s
}

func replayReproduced(path string) bool {
	data, err := os.ReadFile(path)
	if err != nil {
		return false
	}
	var rf ReplayFile
	if json.Unmarshal(data, &rf) != nil {
		return false
	}
	return rf.Reproduced
}

func cmdReplay(path string, opts *RunOpts) int {
	data, err := os.ReadFile(path)
	if err != nil {
		fmt.Fprintln(os.Stderr, "govc:", err)
		return 2
	}
	var rf ReplayFile
	if err := json.Unmarshal(data, &rf); err != nil {
		fmt.Fprintln(os.Stderr, "govc:", err)
		return 2
	}
	fmt.Printf("property %s, obligation %s (%s)\n  status %s by %s\n  shape %s\n", rf.Property, rf.Obligation, rf.Kind, rf.Status, rf.Solver, rf.Shape)
	for k, v := range rf.Model {
		fmt.Printf("    %s = %s\n", k, v)
	}
	if rf.TestSource == "" {
		fmt.Println("  no concrete replay available:", rf.ReplayNote)
		return 0
	}
	out := runOverlayTest(opts, rf.TestPkg, rf.TestSource)
	fmt.Println(out)
	return 0
}

func tryReplay(opts *RunOpts, w *World, q *Oblig) *ReplayOutcome {
	if q.replayFn != nil {
		return q.replayFn(q)
	}
	if q.ctx != nil && q.ctx.con != nil {
		if _, ok := q.ctx.con.option("e2e"); ok {
			if out := e2eReplay(opts, w, q); out != nil {
				return out
			}
		}
	}
	return unitReplay(opts, w, q)
}

func runOverlayTest(opts *RunOpts, pkg, src string) string {
	out, _ := runOverlay(opts, pkg, src, "TestGovcReplay")
	return out
}

// writeTextReplay stores a replay file for a check that ran the real code
// directly (bounded stand-ins, syntactic sweeps).
func writeTextReplay(opts *RunOpts, id, obligation, observed, testSrc, testPkg, cmd string) string {
	dir := filepath.Join(opts.Verif, "replays")
	os.MkdirAll(dir, 0o755)
	rf := &ReplayFile{Property: id, Obligation: obligation, Kind: "bounded", Status: "failed on the real code", Reproduced: true,
		ReplayCmd: cmd, ReplayOutput: trunc(observed, 4000), TestSource: testSrc, TestPkg: testPkg, Model: map[string]string{}}
	path := filepath.Join(dir, fmt.Sprintf("%s-%s.json", id, sanitize(obligation)))
	data, _ := json.MarshalIndent(rf, "", " ")
	os.WriteFile(path, append(data, '\n'), 0o644)
	return path
}
