package main

// Calls: models of external functions, inlining, modular contract application.

import (
	"fmt"
	"go/types"
	"hash/fnv"
	"path"
	"path/filepath"
	"sort"
	"strconv"
	"strings"

	"golang.org/x/tools/go/ssa"
)

var errDynType = types.NewNamed(types.NewTypeName(0, nil, "modelError", nil), types.NewStruct(nil, nil), nil)

func mkErr(tag string) Iface { return Iface{Dyn: errDynType, V: Opaque{Tag: "error:" + tag}} }

func (e *Exec) call(s *State, c *ssa.Call) []Out {
	var args []Val
	for _, a := range c.Call.Args {
		args = append(args, e.val(s, a))
	}
	if c.Call.IsInvoke() {
		recv, ok := e.val(s, c.Call.Value).(Iface)
		if !ok {
			unsupported("invoke on %T", e.val(s, c.Call.Value))
		}
		if recv.Dyn == nil {
			return []Out{{St: s, Panic: "nil interface method call at " + e.pos(c)}}
		}
		if outs, ok := e.abstractInvoke(s, c, recv, args); ok {
			return outs
		}
		fn := e.w.prog.LookupMethod(recv.Dyn, c.Call.Method.Pkg(), c.Call.Method.Name())
		if fn == nil {
			unsupported("cannot resolve method %s on %s", c.Call.Method.Name(), recv.Dyn)
		}
		return e.callFn(s, c, fn, append([]Val{recv.V}, args...))
	}
	switch f := c.Call.Value.(type) {
	case *ssa.Builtin:
		return e.builtin(s, c, f, args)
	case *ssa.Function:
		return e.callFn(s, c, f, args)
	}
	cl, ok := e.val(s, c.Call.Value).(Closure)
	if !ok {
		if op, isOp := e.val(s, c.Call.Value).(Opaque); isOp {
			// unknown function value (e.g. a warner callback): results havocked,
			// assumed not to touch tracked state (listed as an assumption).
			e.stats.Havocked["func value "+op.Tag]++
			s.Trace = append(s.Trace, "assume_frame: call of func value "+op.Tag+" touches no tracked state")
			sig := c.Call.Value.Type().Underlying().(*types.Signature)
			var rets []Val
			for k := 0; k < sig.Results().Len(); k++ {
				rets = append(rets, e.havocByType(s, sig.Results().At(k).Type(), "ret!"+op.Tag))
			}
			return []Out{{St: s, Rets: rets}}
		}
		unsupported("call of %T", e.val(s, c.Call.Value))
	}
	if cl.Fn == nil {
		return []Out{{St: s, Panic: "call of nil func at " + e.pos(c)}}
	}
	if cl.Fn.Parent() == nil && len(cl.Fn.FreeVars) == 0 {
		// a declared function used as a value: called like a static call (its contract applies)
		return e.callFn(s, c, cl.Fn, args)
	}
	return e.callClosure(s, cl, args)
}

func (e *Exec) callClosure(s *State, cl Closure, args []Val) []Out {
	if cl.Fn.Blocks == nil {
		unsupported("closure without body %s", cl.Fn)
	}
	fr := &Frame{Fn: cl.Fn, Env: map[ssa.Value]Val{}}
	for i, p := range cl.Fn.Params {
		fr.Env[p] = args[i]
	}
	for i, fv := range cl.Fn.FreeVars {
		fr.Env[fv] = cl.Binds[i]
	}
	s.Frames = append(s.Frames, fr)
	outs := e.exec(s, cl.Fn.Blocks[0], 0, nil)
	for _, o := range outs {
		if o.Panic == "" {
			o.St.Frames = o.St.Frames[:len(o.St.Frames)-1]
		}
	}
	return outs
}

func fnKey(fn *ssa.Function) string {
	// e.g. "NormalizeBounds", "(*numericValidator).generate"
	if recv := fn.Signature.Recv(); recv != nil {
		t := recv.Type()
		star := ""
		if p, ok := t.(*types.Pointer); ok {
			t = p.Elem()
			star = "*"
		}
		name := t.String()
		if n, ok := t.(*types.Named); ok {
			name = n.Obj().Name()
		}
		return "(" + star + name + ")." + fn.Name()
	}
	return fn.Name()
}

func fnPkgPath(fn *ssa.Function) string {
	if fn.Pkg != nil {
		return fn.Pkg.Pkg.Path()
	}
	if fn.Signature.Recv() != nil {
		t := fn.Signature.Recv().Type()
		if p, ok := t.(*types.Pointer); ok {
			t = p.Elem()
		}
		if n, ok := t.(*types.Named); ok && n.Obj().Pkg() != nil {
			return n.Obj().Pkg().Path()
		}
	}
	if fn.Origin() != nil && fn.Origin().Pkg != nil {
		return fn.Origin().Pkg.Pkg.Path()
	}
	return ""
}

func (e *Exec) callFn(s *State, c *ssa.Call, fn *ssa.Function, args []Val) []Out {
	full := fn.String()
	if fn.Name() == "init" && fn.Signature.Params().Len() == 0 && fn.Signature.Results().Len() == 0 && !strings.HasPrefix(fnPkgPath(fn), e.w.modPath) {
		return []Out{{St: s}} // initialisers of imported packages: no effect on tracked state
	}
	if outs, ok := e.model(s, c, fn, full, args); ok {
		e.stats.Modelled[full]++
		return outs
	}
	pkg := fnPkgPath(fn)
	key := fnKey(fn)
	if strings.HasPrefix(pkg, e.w.modPath) {
		if con := e.w.specs.contractFor(pkg, key); con != nil && !e.noContract[key] && !(e.fnUnder == fn && len(s.Frames) == 0) {
			e.stats.ByContract[key]++
			return e.applyContract(s, c, fn, con, args)
		}
		if fn.Blocks == nil {
			unsupported("no body for %s", full)
		}
		e.stats.Inlined[key]++
		return e.run(s, fn, args)
	}
	unsupported("external call %s not modelled", full)
	return nil
}

// havocByType returns an unconstrained value of the given type (scalars only).
func (e *Exec) havocByType(s *State, t types.Type, prefix string) Val {
	switch u := t.Underlying().(type) {
	case *types.Basic:
		switch {
		case u.Info()&types.IsBoolean != 0:
			return e.fresh(prefix, SBool)
		case u.Info()&types.IsInteger != 0:
			v := e.fresh(prefix, SInt)
			lo, hi, _ := intRange(t)
			s.assume(mkAnd(mkCmp(">=", v, mkIntBig(lo)), mkCmp("<=", v, mkIntBig(hi))))
			return v
		case u.Info()&types.IsFloat != 0:
			v := e.fresh(prefix, SReal)
			s.assume(float64Facts(v))
			return v
		case u.Info()&types.IsString != 0:
			e.freshSeq++
			return atom(fmt.Sprintf("%s!%d", prefix, e.freshSeq))
		}
	case *types.Interface:
		if t.String() == "error" {
			// caller must split on nil / non-nil explicitly
			unsupported("havoc of error value needs a contract")
		}
	}
	unsupported("cannot havoc a value of type %s", t)
	return nil
}

func sliceElems(s *State, v Val) []Val {
	sv, ok := v.(SliceV)
	if !ok {
		unsupported("expected a concrete slice, got %T", v)
	}
	var out []Val
	for i := 0; i < sv.Len_; i++ {
		out = append(out, s.load(sv.Arr.sub(sv.Lo+i)))
	}
	return out
}

func (e *Exec) mkSlice(s *State, elems []Val) SliceV {
	if len(elems) == 0 {
		return SliceV{}
	}
	r := s.alloc(&Agg{Elems: append([]Val{}, elems...)})
	return SliceV{Arr: r, Lo: 0, Len_: len(elems), Cap: len(elems)}
}

func textArg(v Val) Text {
	t, ok := v.(Text)
	if !ok {
		unsupported("expected string, got %T", v)
	}
	return t
}

func concreteArg(v Val, what string) string {
	cs, ok := textArg(v).concrete()
	if !ok {
		unsupported("%s must be a concrete string, got %s", what, textArg(v))
	}
	return cs
}

func sbKey(r Ref) string { return fmt.Sprintf("sb:%d%s", r.Cell, r.Path) }

func (e *Exec) sbAppend(s *State, r Ref, t Text) {
	cur, _ := s.Ghost[sbKey(r)].(Text)
	s.Ghost[sbKey(r)] = cur.concat(t)
}

func derivedAtom(fn string, t Text) Text {
	if len(t.Frags) == 1 && t.Frags[0].Kind == FAtom {
		return atom(fn + "(" + t.Frags[0].Atom + ")")
	}
	unsupported("%s of mixed text %s", fn, t)
	return Text{}
}

// model implements the assumed contracts of library functions (listed in the
// evidence as trusted).
func (e *Exec) model(s *State, c *ssa.Call, fn *ssa.Function, full string, args []Val) ([]Out, bool) {
	ret := func(vs ...Val) ([]Out, bool) { return []Out{{St: s, Rets: vs}}, true }
	// instances of generic functions: drop the type arguments; x/exp/slices is slices
	if i := strings.Index(full, "["); i > 0 {
		full = full[:i]
	}
	full = strings.Replace(full, "golang.org/x/exp/slices.", "slices.", 1)
	switch full {
	case "fmt.Sprintf":
		return ret(sprintf(s, concreteArg(args[0], "format"), sliceElems(s, args[1])))
	case "fmt.Errorf":
		format := concreteArg(args[0], "format")
		wrapped := ""
		for _, a := range sliceElems(s, args[1]) {
			if iv, ok := a.(Iface); ok {
				if op, ok := iv.V.(Opaque); ok && strings.HasPrefix(op.Tag, "error:") {
					wrapped += "<" + op.Tag + ">"
				}
			}
		}
		return ret(mkErr(format + wrapped))
	case "errors.New":
		return ret(mkErr(concreteArg(args[0], "message")))
	case "(time.Time).Format":
		// the text of a time in some layout: an unknown string determined by the time
		// and the layout (the time itself is not modelled)
		return ret(atom(pureAtomName("Format", []string{textArg(args[1]).String()})))
	case "(time.Time).IsZero":
		return ret(mkVar("iszero!time", SBool))
	case "errors.Join":
		// nil when every argument is nil, else an error wrapping the non-nil ones
		joined := ""
		for _, a := range sliceElems(s, args[0]) {
			iv, ok := a.(Iface)
			if !ok {
				unsupported("errors.Join of %T", a)
			}
			if iv.Dyn != nil {
				tag := "error"
				if op, ok := iv.V.(Opaque); ok {
					tag = op.Tag
				}
				joined += "<" + tag + ">"
			}
		}
		if joined == "" {
			return ret(Iface{})
		}
		return ret(mkErr("join" + joined))
	case "github.com/pkg/errors.New":
		return ret(mkErr(concreteArg(args[0], "message")))
	case "strings.Join":
		sep := textArg(args[1])
		out := Text{}
		for i, el := range sliceElems(s, args[0]) {
			if i > 0 {
				out = out.concat(sep)
			}
			out = out.concat(textArg(el))
		}
		return ret(out)
	case "strings.ToUpper", "strings.ToLower":
		t := textArg(args[0])
		if cs, ok := t.concrete(); ok {
			if full == "strings.ToUpper" {
				return ret(lit(strings.ToUpper(cs)))
			}
			return ret(lit(strings.ToLower(cs)))
		}
		name := "upper"
		if full == "strings.ToLower" {
			name = "lower"
		}
		return ret(derivedAtom(name, t))
	case "strings.Contains":
		a, b := textArg(args[0]), textArg(args[1])
		as, ok1 := a.concrete()
		bs, ok2 := b.concrete()
		if ok1 && ok2 {
			return ret(mkBool(strings.Contains(as, bs)))
		}
		unsupported("strings.Contains on non-concrete %s", a)
	case "strings.HasPrefix":
		at := textArg(args[0])
		as, ok1 := at.concrete()
		bs, ok2 := textArg(args[1]).concrete()
		if ok1 && ok2 {
			return ret(mkBool(strings.HasPrefix(as, bs)))
		}
		if ok2 && singleAtom(at) {
			// a deterministic unknown verdict; a string with that prefix is at
			// least as long. For lower(x) with an ASCII prefix the ORIGINAL x is at
			// least as long too: ToLower maps rune by rune and an ASCII rune in the
			// output comes from an input rune of at least one byte.
			a := at.Frags[0].Atom
			hp := mkVar(fmt.Sprintf("hasprefix!%s!%q", a, bs), SBool)
			s.assume(mkImplies(hp, mkCmp(">=", e.atomLen(s, a), mkInt(int64(len(bs))))))
			if strings.HasPrefix(a, "lower(") && isASCII(bs) {
				inner := strings.TrimSuffix(strings.TrimPrefix(a, "lower("), ")")
				s.assume(mkImplies(hp, mkCmp(">=", e.atomLen(s, inner), mkInt(int64(len(bs))))))
				s.Trace = append(s.Trace, "assume: strings.ToLower is rune-wise, so an ASCII prefix of ToLower(x) of n bytes implies len(x) >= n")
			}
			return ret(hp)
		}
		unsupported("strings.HasPrefix on non-concrete")
	case "encoding/json.Unmarshal":
		// Assumed contract of the decoder: it fails (nothing written) or succeeds
		// and sets the target's fields. Only the fields named by the contract's
		// `option json-havoc` are given unknown decoded values (maps: nil or some
		// map; strings: unknown, possibly empty; bools: unknown); the others keep
		// their zero value, which no post below reads. decoded(k, Field) names the
		// value the k-th successful decode on the path produced.
		tgt, ok := args[1].(Iface)
		if !ok || tgt.Dyn == nil {
			unsupported("json.Unmarshal into %T", args[1])
		}
		ref, ok := tgt.V.(Ref)
		if !ok || ref.isNil() {
			unsupported("json.Unmarshal into non-pointer")
		}
		k := 0
		if kv, ok := s.Ghost["json:calls"].(*T); ok {
			kk, _ := kv.intVal()
			k = int(kk)
		}
		s.Ghost["json:calls"] = mkInt(int64(k + 1))
		failSt := s.clone()
		outs := []Out{{St: failSt, Rets: []Val{mkErr("json.Unmarshal")}}}
		var want []string
		if e.conUnder != nil {
			if v, ok := e.conUnder.option("json-havoc"); ok {
				want = strings.Fields(v)
			}
		}
		okStates := []*State{s}
		cur := s.load(ref)
		if agg, isAgg := cur.(*Agg); isAgg && agg.Typ != nil {
			if st, isSt := agg.Typ.Underlying().(*types.Struct); isSt {
				for fi := 0; fi < st.NumFields(); fi++ {
					fname := st.Field(fi).Name()
					sel := false
					for _, wn := range want {
						if wn == fname {
							sel = true
						}
					}
					if !sel {
						continue
					}
					var next []*State
					for _, st0 := range okStates {
						var alts []Val
						switch u := st.Field(fi).Type().Underlying().(type) {
						case *types.Map:
							mr := st0.alloc(&MapAgg{Unknown: true, Tag: fmt.Sprintf("decoded%d.%s", k, fname)})
							alts = []Val{MapV{}, MapV{Cell: mr.Cell}}
						case *types.Basic:
							switch {
							case u.Info()&types.IsString != 0:
								alts = []Val{atom(fmt.Sprintf("decoded%d.%s", k, fname))}
							case u.Info()&types.IsBoolean != 0:
								alts = []Val{mkVar(fmt.Sprintf("decoded%d.%s", k, fname), SBool)}
							}
						}
						if alts == nil {
							unsupported("json-havoc of field %s of type %s", fname, st.Field(fi).Type())
						}
						for ai, av := range alts {
							st1 := st0
							if ai < len(alts)-1 {
								st1 = st0.clone()
							}
							st1.store(ref.sub(fi), av)
							st1.Ghost[fmt.Sprintf("json:%d:%s", k, fname)] = av
							next = append(next, st1)
						}
					}
					okStates = next
				}
			}
		} else if t, isT := cur.(*T); isT && t.Sort == SBool {
			bv := mkVar(fmt.Sprintf("decoded%d.bool", k), SBool)
			s.store(ref, bv)
			s.Ghost[fmt.Sprintf("json:%d:bool", k)] = bv
		}
		for _, st1 := range okStates {
			outs = append(outs, Out{St: st1, Rets: []Val{Iface{}}})
		}
		return outs, true
	case "reflect.DeepEqual":
		if t, ok := deepEqualVal(s, args[0], args[1], 0); ok {
			return ret(t)
		}
		return ret(mkVar("deepeq!"+refTag(args[0])+"!"+refTag(args[1]), SBool))
	case "strings.ContainsAny":
		a, b := textArg(args[0]), textArg(args[1])
		as, ok1 := a.concrete()
		bs, ok2 := b.concrete()
		if ok1 && ok2 {
			return ret(mkBool(strings.ContainsAny(as, bs)))
		}
		if ok2 && singleAtom(a) {
			return ret(mkVar(fmt.Sprintf("containsany!%s!%q", a.Frags[0].Atom, bs), SBool))
		}
		unsupported("strings.ContainsAny on mixed text")
	case "strings.IndexRune":
		t := textArg(args[0])
		r, ok := args[1].(*T).intVal()
		if !ok {
			unsupported("IndexRune of symbolic rune")
		}
		if cs, ok := t.concrete(); ok {
			return ret(mkInt(int64(strings.IndexRune(cs, rune(r)))))
		}
		if len(t.Frags) != 1 || t.Frags[0].Kind != FAtom {
			unsupported("IndexRune of mixed text")
		}
		a := t.Frags[0].Atom
		// deterministic: the same variable wherever the same call is made
		idx := mkVar(fmt.Sprintf("indexrune!%s!%d", a, r), SInt)
		s.assume(mkAnd(mkCmp(">=", idx, mkInt(-1)), mkCmp("<", idx, e.atomLen(s, a))))
		return ret(idx)
	case "reflect.TypeOf":
		iv, ok := args[0].(Iface)
		if !ok || iv.Dyn == nil {
			unsupported("reflect.TypeOf of a nil or unmodelled interface")
		}
		return ret(Iface{Dyn: errDynType, V: Opaque{Tag: "rtype:" + types.TypeString(iv.Dyn, nil)}})
	case "dario.cat/mergo.WithTransformers":
		return ret(Opaque{Tag: "mergo.WithTransformers"})
	case "path/filepath.Dir", "path.Dir", "path/filepath.IsAbs", "path.IsAbs", "path/filepath.Clean":
		t := textArg(args[0])
		if as, ok := t.concrete(); ok {
			switch full {
			case "path/filepath.Dir":
				return ret(lit(filepath.Dir(as)))
			case "path.Dir":
				return ret(lit(path.Dir(as)))
			case "path/filepath.IsAbs":
				return ret(mkBool(filepath.IsAbs(as)))
			case "path.IsAbs":
				return ret(mkBool(path.IsAbs(as)))
			default:
				return ret(lit(filepath.Clean(as)))
			}
		}
		if strings.HasSuffix(full, "IsAbs") {
			return ret(mkVar("isabs!"+sanitize(t.String()), SBool))
		}
		return ret(atom(pureAtomName(full[strings.LastIndex(full, ".")+1:], []string{t.String()})))
	case "path/filepath.Join", "path.Join":
		var parts []string
		all := true
		var names []string
		for _, a := range sliceElems(s, args[0]) {
			t := textArg(a)
			names = append(names, t.String())
			if cs, ok := t.concrete(); ok {
				parts = append(parts, cs)
			} else {
				all = false
			}
		}
		if all {
			if full == "path.Join" {
				return ret(lit(path.Join(parts...)))
			}
			return ret(lit(filepath.Join(parts...)))
		}
		return ret(atom(pureAtomName("Join", names)))
	case "path.Ext", "path/filepath.Ext", "path.Base", "path/filepath.Base":
		t := textArg(args[0])
		if as, ok := t.concrete(); ok {
			switch full {
			case "path.Ext":
				return ret(lit(path.Ext(as)))
			case "path/filepath.Ext":
				return ret(lit(filepath.Ext(as)))
			case "path.Base":
				return ret(lit(path.Base(as)))
			default:
				return ret(lit(filepath.Base(as)))
			}
		}
		return ret(atom(pureAtomName(full[strings.LastIndex(full, ".")+1:], []string{t.String()})))
	case "strings.CutSuffix", "strings.CutPrefix", "strings.HasSuffix", "strings.EqualFold":
		as, ok1 := textArg(args[0]).concrete()
		bs, ok2 := textArg(args[1]).concrete()
		if !ok1 || !ok2 {
			unsupported("%s of unknown strings", full)
		}
		switch full {
		case "strings.CutSuffix":
			r, ok := strings.CutSuffix(as, bs)
			return ret(lit(r), mkBool(ok))
		case "strings.CutPrefix":
			r, ok := strings.CutPrefix(as, bs)
			return ret(lit(r), mkBool(ok))
		case "strings.HasSuffix":
			return ret(mkBool(strings.HasSuffix(as, bs)))
		default:
			return ret(mkBool(strings.EqualFold(as, bs)))
		}
	case "strings.TrimSuffix", "strings.TrimPrefix":
		t := textArg(args[0])
		as, ok1 := t.concrete()
		bs, ok2 := textArg(args[1]).concrete()
		if ok1 && ok2 {
			if strings.HasSuffix(full, "TrimSuffix") {
				return ret(lit(strings.TrimSuffix(as, bs)))
			}
			return ret(lit(strings.TrimPrefix(as, bs)))
		}
		if ok2 && bs == "" {
			return ret(t)
		}
		// an unknown string, a function of the arguments; nothing says it equals
		// its argument
		return ret(atom(pureAtomName(full[strings.LastIndex(full, ".")+1:], []string{t.String(), textArg(args[1]).String()})))
	case "strings.LastIndex", "strings.Index":
		as, ok1 := textArg(args[0]).concrete()
		bs, ok2 := textArg(args[1]).concrete()
		if !ok1 || !ok2 {
			unsupported("%s of unknown strings", full)
		}
		if full == "strings.Index" {
			return ret(mkInt(int64(strings.Index(as, bs))))
		}
		return ret(mkInt(int64(strings.LastIndex(as, bs))))
	case "sort.Strings":
		sl, ok := args[0].(SliceV)
		if !ok {
			unsupported("sort.Strings on %T", args[0])
		}
		if sl.Len_ <= 1 {
			return ret()
		}
		var strs []string
		for k := 0; k < sl.Len_; k++ {
			t, isT := s.load(sl.Arr.sub(sl.Lo + k)).(Text)
			cs, isC := t.concrete()
			if !isT || !isC {
				unsupported("sort.Strings of unknown strings")
			}
			strs = append(strs, cs)
		}
		sort.Strings(strs)
		for k, x := range strs {
			s.store(sl.Arr.sub(sl.Lo+k), lit(x))
		}
		return ret()
	case "slices.Contains":
		sl, ok := args[0].(SliceV)
		if !ok {
			unsupported("slices.Contains on %T", args[0])
		}
		ctx := &EvalCtx{sp: e.w.specs, env: map[string]Val{}, st: s, ex: e}
		var alts []*T
		for k := 0; k < sl.Len_; k++ {
			alts = append(alts, ctx.valEq(&Node{Pos: "slices.Contains"}, s.load(sl.Arr.sub(sl.Lo+k)), args[1]))
		}
		return ret(mkOr(alts...))
	case "dario.cat/mergo.Merge":
		// Assumed (external): Merge(dst, src, ...) may write to any memory reachable
		// from dst through pointers and maps (it merges maps in place and recurses
		// through pointers); with WithAppendSlice slices are re-allocated by append,
		// not written in place; src is only read. It fails or succeeds.
		// Aliasing (read off mergo v1.0.1's deepMerge): a nil pointer field of dst is
		// SET to src's pointer, a nil map is rebuilt with src's VALUES, slices are
		// appended element-wise — so after the call dst may hold pointers to
		// everything src's fields, map values and slice elements point to. A later
		// Merge into the same dst writes through them.
		// the options of this call, by name (merge_options() in contracts)
		if len(args) > 2 {
			if sl, ok := args[2].(SliceV); ok {
				var names []string
				for k := 0; k < sl.Len_; k++ {
					switch o := s.load(sl.Arr.sub(sl.Lo + k)).(type) {
					case Closure:
						if o.Fn != nil {
							names = append(names, o.Fn.Name())
						}
					case Opaque:
						names = append(names, strings.TrimPrefix(o.Tag, "mergo."))
					default:
						names = append(names, fmt.Sprintf("%T", o))
					}
				}
				sort.Strings(names)
				s.Ghost["mergo-opts"] = lit(strings.Join(names, ","))
			}
		}
		seen := map[int]bool{}
		e.writeReachable(s, args[0], seen, "written-by:mergo.Merge")
		unwrap := func(v Val) Val {
			if iv, ok := v.(Iface); ok {
				return iv.V
			}
			return v
		}
		if d, ok := unwrap(args[0]).(Ref); ok && !d.isNil() {
			al := map[int]bool{}
			if prev, ok := s.Ghost[fmt.Sprintf("mergo-alias:%d", d.Cell)].(aliasSet); ok {
				for c := range prev {
					al[c] = true
				}
			}
			if sr, ok := unwrap(args[1]).(Ref); ok && !sr.isNil() {
				e.pointees(s, s.load(sr), al, true)
			}
			s.Ghost[fmt.Sprintf("mergo-alias:%d", d.Cell)] = aliasSet(al)
		}
		s2 := s.clone()
		return []Out{{St: s, Rets: []Val{Iface{}}}, {St: s2, Rets: []Val{Iface{Dyn: errDynType, V: Opaque{Tag: "mergo-error"}}}}}, true
	case "github.com/mitchellh/go-wordwrap.WrapString":
		// Assumed (external): some string; nothing is known about it.
		t := textArg(args[0])
		return ret(atom(pureAtomName("wrapped", []string{t.String()})))
	case "strings.Split":
		// Only the line split is modelled: strings.Split(x, "\n") yields pieces that
		// contain no newline. Two generic pieces stand for any number of them (the
		// loop body that consumes them is the same for each).
		t := textArg(args[0])
		if sep, ok := textArg(args[1]).concrete(); !ok || sep != "\n" {
			unsupported("strings.Split with a separator other than \"\\n\"")
		}
		arr := s.alloc(&Agg{Typ: types.NewArray(types.Typ[types.String], 2), Elems: []Val{
			atom(pureAtomName("line0", []string{t.String()})),
			atom(pureAtomName("line1", []string{t.String()})),
		}})
		return ret(SliceV{Arr: arr, Lo: 0, Len_: 2, Cap: 2})
	case "strings.TrimSpace":
		t := textArg(args[0])
		if cs, ok := t.concrete(); ok {
			return ret(lit(strings.TrimSpace(cs)))
		}
		fr := append([]Frag{}, t.Frags...)
		if len(fr) > 0 && fr[0].Kind == FLit {
			fr[0].Lit = strings.TrimLeft(fr[0].Lit, " \t\r\n")
		} else if len(fr) > 0 && fr[0].Kind == FAtom {
			s.Trace = append(s.Trace, "assume: atom "+fr[0].Atom+" has no leading white space (strings.TrimSpace)")
		}
		if n := len(fr); n > 0 && fr[n-1].Kind == FLit {
			fr[n-1].Lit = strings.TrimRight(fr[n-1].Lit, " \t\r\n")
		} else if n > 0 && fr[n-1].Kind == FAtom {
			s.Trace = append(s.Trace, "assume: atom "+fr[n-1].Atom+" has no trailing white space (strings.TrimSpace)")
		}
		return ret(Text{}.concat(Text{fr}))
	case "math.Round":
		return ret(e.num(s).round(args[0].(*T)))
	case "math.Trunc":
		a := toReal(args[0].(*T))
		return ret(toReal(mkIte(mkCmp(">=", a, mkReal(ratInt(0))), e.num(s).floor(a), e.num(s).ceil(a))))
	case "math.Abs":
		a := args[0].(*T)
		return ret(mkIte(mkCmp(">=", a, mkReal(ratInt(0))), a, mkArith("-", mkReal(ratInt(0)), a)))
	case "math.Floor":
		return ret(toReal(e.num(s).floor(args[0].(*T))))
	case "math.Ceil":
		return ret(toReal(e.num(s).ceil(args[0].(*T))))
	case "(*strings.Builder).WriteString":
		r := args[0].(Ref)
		e.sbAppend(s, r, textArg(args[1]))
		return ret(mkVar("sbn", SInt), Iface{})
	case "(*strings.Builder).WriteRune":
		r := args[0].(Ref)
		k, ok := args[1].(*T).intVal()
		if !ok {
			unsupported("WriteRune of symbolic rune")
		}
		e.sbAppend(s, r, lit(string(rune(k))))
		return ret(mkVar("sbn", SInt), Iface{})
	case "(*strings.Builder).String":
		cur, _ := s.Ghost[sbKey(args[0].(Ref))].(Text)
		return ret(cur)
	case "fmt.Fprintf":
		w, ok := args[0].(Iface)
		if !ok || w.Dyn == nil || w.Dyn.String() != "*strings.Builder" {
			unsupported("fmt.Fprintf to %v", args[0])
		}
		e.sbAppend(s, w.V.(Ref), sprintf(s, concreteArg(args[1], "format"), sliceElems(s, args[2])))
		return ret(mkVar("sbn", SInt), Iface{})
	}
	if strings.HasPrefix(full, "github.com/google/go-cmp/cmp") {
		// go-cmp is external. Option constructors become opaque option values
		// tagged with the constructor and its concrete string arguments;
		// cmp.Equal(a, b, ...) is a deterministic unknown verdict about (a, b).
		short := full[strings.LastIndex(full, "/")+1:]
		if short == "cmp.Equal" {
			return ret(mkVar("cmpeq!"+refTag(args[0])+"!"+refTag(args[1]), SBool))
		}
		var parts []string
		for _, a := range args {
			if sl, ok := a.(SliceV); ok {
				for _, el := range sliceElems(s, sl) {
					if iv, ok := el.(Iface); ok {
						el = iv.V
					}
					if t, ok := el.(Text); ok {
						parts = append(parts, t.String())
					}
				}
			}
			if t, ok := a.(Text); ok {
				parts = append(parts, t.String())
			}
		}
		if fn.Signature.Results().Len() == 0 {
			return ret()
		}
		rt := fn.Signature.Results().At(0).Type()
		return ret(Iface{Dyn: errDynType, V: Opaque{Tag: "cmpopt:" + short + ":" + strings.Join(parts, ","), Typ: rt}})
	}
	if strings.HasSuffix(full, "/codegen.Emitter).Comment") || strings.HasSuffix(full, "/codegen.Emitter).Commentf") {
		// Assumed contract (wordwrap is external): the text is emitted as one or
		// more `// ...` comment lines at the current indentation.
		var t Text
		if strings.HasSuffix(full, "Commentf") {
			t = sprintf(s, concreteArg(args[1], "format"), sliceElems(s, args[2]))
		} else {
			t = textArg(args[1])
		}
		recv := args[0].(Ref)
		em := s.load(recv).(*Agg)
		sbIdx := structFieldIndex(em.Typ, "sb")
		if sbIdx < 0 {
			unsupported("Emitter without sb field")
		}
		e.sbAppend(s, recv.sub(sbIdx), lit("\x00COMMENT ").concat(t).concat(lit("\n")))
		return ret()
	}
	return nil, false
}

func (e *Exec) builtin(s *State, c *ssa.Call, b *ssa.Builtin, args []Val) []Out {
	ret := func(vs ...Val) []Out { return []Out{{St: s, Rets: vs}} }
	switch b.Name() {
	case "len":
		switch v := args[0].(type) {
		case SliceV:
			return ret(mkInt(int64(v.Len_)))
		case *SymSlice:
			return ret(v.Len)
		case Text:
			if cs, ok := v.concrete(); ok {
				return ret(mkInt(int64(len(cs))))
			}
			if len(v.Frags) == 1 && v.Frags[0].Kind == FAtom {
				a := v.Frags[0].Atom
				lv := mkVar("len!"+a, SInt)
				if _, done := s.Ghost["lenfact:"+a]; !done {
					s.Ghost["lenfact:"+a] = tTrue
					s.assume(mkAnd(mkCmp(">=", lv, mkInt(0)), mkIff(mkEq(lv, mkInt(0)), atomEmptyVar(a))))
				}
				return ret(lv)
			}
			// literals count exactly, atoms through their length variable; a formatted
			// number has no modelled length
			total := mkInt(0)
			for _, f := range v.Frags {
				switch f.Kind {
				case FLit:
					total = mkArith("+", total, mkInt(int64(len(f.Lit))))
				case FAtom:
					lv := mkVar("len!"+f.Atom, SInt)
					if _, done := s.Ghost["lenfact:"+f.Atom]; !done {
						s.Ghost["lenfact:"+f.Atom] = tTrue
						s.assume(mkAnd(mkCmp(">=", lv, mkInt(0)), mkIff(mkEq(lv, mkInt(0)), atomEmptyVar(f.Atom))))
					}
					total = mkArith("+", total, lv)
				default:
					unsupported("len of text holding a formatted number")
				}
			}
			return ret(total)
		case MapV:
			if v.Cell == 0 {
				return ret(mkInt(0))
			}
			m := s.Heap[v.Cell].(*MapAgg)
			if m.Unknown {
				// an unknown map has an unknown, non-negative number of entries (at least
				// the ones written or asked about so far that are known to be present)
				n := mkVar(fmt.Sprintf("maplen!%s!%d", m.Tag, v.Cell), SInt)
				s.assume(mkCmp(">=", n, mkInt(0)))
				return ret(n)
			}
			return ret(mkInt(int64(len(m.Keys))))
		}
		unsupported("len of %T", args[0])
	case "cap":
		if v, ok := args[0].(SliceV); ok {
			return ret(mkInt(int64(v.Cap)))
		}
	case "append":
		if ss, ok := args[0].(*SymSlice); ok {
			return e.symAppend(s, c, ss, args[1])
		}
		base := sliceElems(s, args[0])
		var more []Val
		if t, ok := args[1].(Text); ok { // append([]byte, string...)
			_ = t
			unsupported("append of string bytes")
		}
		more = sliceElems(s, args[1])
		if len(more) == 0 {
			return ret(args[0])
		}
		// Always reallocates: sound for the code under contract, which never
		// relies on two slices sharing a backing array after append.
		return ret(e.mkSlice(s, append(append([]Val{}, base...), more...)))
	case "ssa:wrapnilchk":
		if r, ok := args[0].(Ref); ok && r.isNil() {
			return []Out{{St: s, Panic: "nil receiver (wrapnilchk) at " + e.pos(c)}}
		}
		return ret(args[0])
	case "copy":
		dst, ok1 := args[0].(SliceV)
		src, ok2 := args[1].(SliceV)
		if !ok1 || !ok2 {
			unsupported("copy on %T", args[0])
		}
		n := dst.Len_
		if src.Len_ < n {
			n = src.Len_
		}
		for i := 0; i < n; i++ {
			s.store(dst.Arr.sub(dst.Lo+i), s.load(src.Arr.sub(src.Lo+i)))
		}
		return ret(mkInt(int64(n)))
	case "delete":
		m, ok := args[0].(MapV)
		if !ok {
			unsupported("delete on %T", args[0])
		}
		if m.Cell == 0 {
			return ret()
		}
		ma := s.Heap[m.Cell].(*MapAgg)
		if ma.Unknown {
			unsupported("delete from a symbolic map")
		}
		if k := keyIndex(ma, args[1]); k >= 0 {
			n := &MapAgg{Tag: ma.Tag, Writes: append(append([]Val{}, ma.Writes...), args[1])}
			for j := range ma.Keys {
				if j == k {
					continue
				}
				n.Keys = append(n.Keys, ma.Keys[j])
				n.Vals = append(n.Vals, ma.Vals[j])
				if j < len(ma.Oks) {
					n.Oks = append(n.Oks, ma.Oks[j])
				} else {
					n.Oks = append(n.Oks, tTrue)
				}
			}
			s.Heap[m.Cell] = n
		}
		return ret()
	case "max", "min":
		// numeric operands only (Int or Real terms)
		cur, ok := args[0].(*T)
		if !ok {
			unsupported("builtin %s on %T", b.Name(), args[0])
		}
		for _, a := range args[1:] {
			t, ok := a.(*T)
			if !ok {
				unsupported("builtin %s on %T", b.Name(), a)
			}
			op := ">="
			if b.Name() == "min" {
				op = "<="
			}
			cur = mkIte(mkCmp(op, cur, t), cur, t)
		}
		return ret(cur)
	}
	unsupported("builtin %s", b.Name())
	return nil
}

// ---------------------------------------------------------------------------
// Modular call rule: assert requires; havoc assigns; fresh results; assume ensures.

func (e *Exec) applyContract(s *State, c *ssa.Call, fn *ssa.Function, con *Contract, args []Val) []Out {
	caller := e.fnName()
	e.callSeq[con.Func]++
	callName := fmt.Sprintf("%s/call:%s", caller, con.target())
	env := map[string]Val{}
	for i, p := range fn.Params {
		env[p.Name()] = args[i]
	}
	// 1. preconditions are obligations of the caller
	for k, rq := range con.clauses("requires") {
		ctx := &EvalCtx{sp: e.w.specs, env: env, st: s, old: s, ex: e, origin: callName + "/requires"}
		var sk []*T
		var defs []*T
		ctx.skolems = &sk
		ctx.defs = &defs
		goal := ctx.evalClause(rq.Expr)
		for _, d := range defs {
			s.assume(d)
		}
		label := rq.Label
		if label == "" {
			label = fmt.Sprint(k)
		}
		e.emit(s, &Oblig{Kind: "requires", Name: fmt.Sprintf("%s/requires#%s", callName, label), Where: e.pos(c), Goal: goal, Tags: rq.Tags, Skolems: sk})
		s.assume(goal)
	}
	pre := s.snapshot()
	// 2. havoc the frame
	type alt struct {
		st   *State
		rets []Val
	}
	alts := []alt{{st: s}}
	for _, as := range con.clauses("assigns") {
		if strings.TrimSpace(as.Raw) == "nothing" {
			continue
		}
		for _, lv := range splitTop(as.Raw) {
			n, err := parseExpr(lv, as.Pos)
			if err != nil {
				unsupported("bad assigns clause: %v", err)
			}
			var next []alt
			for _, a := range alts {
				ctx := &EvalCtx{sp: e.w.specs, env: env, st: a.st, ex: e}
				ref, ok := ctx.evalRef(n)
				if !ok {
					unsupported("assigns target %s is not an addressable location", lv)
				}
				if ref.isNil() {
					next = append(next, a)
					continue
				}
				cur := a.st.load(ref)
				for _, hv := range e.havocLike(a.st, cur, "havoc!"+sanitize(lv), args) {
					st2 := a.st.clone()
					st2.store(ref, hv)
					next = append(next, alt{st: st2})
				}
			}
			alts = next
		}
	}
	// 3. results
	sig := fn.Signature
	joint := false
	resClauses := con.clauses("shape")
	// The contract under verification may narrow a callee's joint results to the
	// alternatives its scenario is about: `option results-of <callee> = (..) | (..)`.
	if e.conUnder != nil {
		for _, oc := range e.conUnder.clauses("option") {
			raw := strings.TrimSpace(oc.Raw)
			if !strings.HasPrefix(raw, "results-of ") {
				continue
			}
			rest := strings.TrimSpace(strings.TrimPrefix(raw, "results-of "))
			eq := strings.Index(rest, "=")
			if eq < 0 || strings.TrimSpace(rest[:eq]) != con.target() {
				continue
			}
			var kept []*Clause
			for _, sc := range resClauses {
				if q := strings.Index(sc.Raw, "="); q >= 0 && strings.TrimSpace(sc.Raw[:q]) == "results" {
					continue
				}
				kept = append(kept, sc)
			}
			resClauses = append(kept, &Clause{Kind: "shape", Raw: "results =" + rest[eq+1:], Pos: oc.Pos})
		}
	}
	for _, sc := range resClauses {
		eq := strings.Index(sc.Raw, "=")
		if eq < 0 || strings.TrimSpace(sc.Raw[:eq]) != "results" {
			continue
		}
		// `shape results = (alt, alt) | (alt, alt)`: joint result alternatives
		joint = true
		var next []alt
		for _, a := range alts {
			for _, tup := range strings.Split(sc.Raw[eq+1:], "|") {
				tup = strings.TrimSpace(tup)
				tup = strings.TrimSuffix(strings.TrimPrefix(tup, "("), ")")
				parts := strings.Split(tup, ";")
				if len(parts) != sig.Results().Len() {
					unsupported("%s: result tuple arity", sc.Pos)
				}
				st2 := a.st.clone()
				var rets []Val
				for k, p := range parts {
					p = strings.TrimSpace(p)
					rt := sig.Results().At(k).Type()
					switch {
					case p == "nil":
						rets = append(rets, zeroVal(rt))
					case p == "error":
						rets = append(rets, mkErr("from "+con.target()))
					case p == "new":
						// a pointer to a new object of the result's element type, zero-valued
						pt, ok := rt.Underlying().(*types.Pointer)
						if !ok {
							unsupported("%s: result alternative new for non-pointer %s", sc.Pos, rt)
						}
						r := st2.alloc(zeroVal(pt.Elem()))
						st2.CellTypes[r.Cell] = pt.Elem()
						rets = append(rets, r)
					case p == "pure":
						// an unknown string determined by the callee and its string arguments
						var parts []string
						for _, a := range args {
							if t, ok := a.(Text); ok {
								parts = append(parts, t.String())
							}
						}
						rets = append(rets, atom(pureAtomName(con.target(), parts)))
					case len(p) >= 2 && p[0] == '"':
						sv, err := strconv.Unquote(p)
						if err != nil {
							unsupported("%s: bad string literal %s", sc.Pos, p)
						}
						rets = append(rets, lit(sv))
					case strings.Contains(p, ":"):
						kv := strings.SplitN(p, ":", 2)
						rets = append(rets, e.w.codegenType(st2, kv[0], kv[1]))
					default:
						unsupported("%s: result alternative %q", sc.Pos, p)
					}
				}
				next = append(next, alt{st: st2, rets: rets})
			}
		}
		alts = next
	}
	for k := 0; k < sig.Results().Len() && !joint; k++ {
		rt := sig.Results().At(k).Type()
		var next []alt
		for _, a := range alts {
			for _, rv := range e.resultCandidates(a.st, rt, fmt.Sprintf("ret%d!%s", k, sanitize(con.Func)), args, con, k) {
				st2 := a.st
				if len(alts) > 0 {
					st2 = a.st.clone()
				}
				// candidates that allocate did so in a.st before cloning; re-home fresh cells
				next = append(next, alt{st: st2, rets: append(append([]Val{}, a.rets...), rv)})
			}
		}
		alts = next
	}
	// 4. assume postconditions
	var outs []Out
	for _, a := range alts {
		env2 := copyEnv(env)
		bindResults(env2, a.rets)
		feasible := true
		for _, en := range con.clauses("ensures") {
			var lem []*Lemma
			var defs []*T
			ctx := &EvalCtx{sp: e.w.specs, env: env2, st: a.st, old: pre, assume: true, lemmas: &lem, ex: e, origin: callName + "/ensures#" + en.Label, defs: &defs}
			t := func() (t *T) {
				defer func() {
					if r := recover(); r != nil {
						if sp, ok := r.(specPanic); ok {
							// a post that cannot be evaluated in this result shape (e.g. deref of a nil
							// candidate) is skipped only if it is guarded; otherwise the shape is infeasible
							_ = sp
							t = nil
							return
						}
						panic(r)
					}
				}()
				return ctx.evalClause(en.Expr)
			}()
			if t == nil {
				feasible = false
				break
			}
			if t.isFalse() {
				feasible = false
				break
			}
			a.st.assume(t)
			for _, d := range defs {
				a.st.assume(d)
			}
			for _, l := range lem {
				l.Post = a.st.snapshot()
			}
			a.st.Lemmas = append(a.st.Lemmas, lem...)
		}
		if !feasible {
			continue
		}
		a.st.Trace = append(a.st.Trace, "call "+con.Func+" replaced by its contract")
		a.st.Ghost["callret:"+con.target()] = Tuple(a.rets)
		a.st.Ghost["callarg:"+con.target()] = Tuple(append([]Val{}, args...))
		prevCalls, _ := a.st.Ghost["callargs:"+con.target()].(Tuple)
		a.st.Ghost["callargs:"+con.target()] = append(append(Tuple{}, prevCalls...), Tuple(append([]Val{}, args...)))
		outs = append(outs, Out{St: a.st, Rets: a.rets})
	}
	if len(outs) == 0 {
		unsupported("contract of %s admits no result shape at %s", con.Func, e.pos(c))
	}
	return outs
}

// pureAtomName names the result of a pure string function applied to texts.
func pureAtomName(target string, parts []string) string {
	name := strings.NewReplacer("(*", "", "(", "", ")", "").Replace(target)
	return name + "(" + strings.ReplaceAll(strings.ReplaceAll(strings.Join(parts, ","), "⟦", ""), "⟧", "") + ")"
}

func bindResults(env map[string]Val, rets []Val) {
	for k, r := range rets {
		env[fmt.Sprintf("result%d", k)] = r
	}
	if len(rets) == 1 {
		env["result"] = rets[0]
	} else if len(rets) > 1 {
		env["result"] = Tuple(rets)
	}
}

func splitTop(s string) []string {
	var out []string
	depth := 0
	cur := ""
	for _, c := range s {
		switch c {
		case '(', '[':
			depth++
		case ')', ']':
			depth--
		case ',':
			if depth == 0 {
				out = append(out, strings.TrimSpace(cur))
				cur = ""
				continue
			}
		}
		cur += string(c)
	}
	if strings.TrimSpace(cur) != "" {
		out = append(out, strings.TrimSpace(cur))
	}
	return out
}

// havocLike yields the possible new contents of an assigned location, by the
// kind of its current content.
func (e *Exec) havocLike(s *State, cur Val, prefix string, args []Val) []Val {
	switch c := cur.(type) {
	case *T:
		return []Val{e.fresh(prefix, c.Sort)}
	case Text:
		e.freshSeq++
		return []Val{atom(fmt.Sprintf("%s!%d", prefix, e.freshSeq))}
	case Ref:
		// a pointer location may become nil or keep its value (the contracts
		// under which this is used say so in their ensures)
		if c.isNil() {
			return []Val{Ref{}}
		}
		return []Val{Ref{}, c}
	case SliceV:
		// a slice location the callee may have appended to: unknown from here on
		// (a path that reads it afterwards is reported as not modelled)
		e.freshSeq++
		return []Val{Opaque{Tag: fmt.Sprintf("%s!%d", prefix, e.freshSeq)}}
	}
	unsupported("cannot havoc location holding %T", cur)
	return nil
}

// resultCandidates enumerates shapes for a callee result of type rt.
func (e *Exec) resultCandidates(s *State, rt types.Type, prefix string, args []Val, con *Contract, k int) []Val {
	switch u := rt.Underlying().(type) {
	case *types.Basic:
		if u.Info()&types.IsString != 0 {
			// `shape resultK = "a" | "b"`: finite set of possible results (proved
			// when the callee itself is verified: see verify.go resultShape)
			for _, sc := range con.clauses("shape") {
				eq := strings.Index(sc.Raw, "=")
				if eq < 0 || strings.TrimSpace(sc.Raw[:eq]) != fmt.Sprintf("result%d", k) {
					continue
				}
				// one symbolic result constrained to the listed values (no forking)
				e.freshSeq++
				name := fmt.Sprintf("%s!%d", prefix, e.freshSeq)
				var eqs []*T
				var dom []string
				for _, a := range strings.Split(sc.Raw[eq+1:], "|") {
					sv, err := strconv.Unquote(strings.TrimSpace(a))
					if err != nil {
						unsupported("%s: bad result shape literal %s", sc.Pos, a)
					}
					dom = append(dom, sv)
				}
				atomDomains[name] = dom
				for _, sv := range dom {
					t, _ := textEq(atom(name), lit(sv))
					eqs = append(eqs, t)
				}
				s.assume(mkOr(eqs...))
				for i := range eqs {
					for j := i + 1; j < len(eqs); j++ {
						s.assume(mkNot(mkAnd(eqs[i], eqs[j])))
					}
				}
				return []Val{atom(name)}
			}
			if _, pure := con.option("pure"); pure {
				var parts []string
				for _, a := range args {
					if t, ok := a.(Text); ok {
						parts = append(parts, t.String())
					}
				}
				return []Val{atom(pureAtomName(con.target(), parts))}
			}
		}
		return []Val{e.havocByType(s, rt, prefix)}
	case *types.Pointer:
		cands := []Val{Ref{}}
		seen := map[Ref]bool{}
		var addArgs func(v Val, t types.Type)
		for i, a := range args {
			_ = i
			if r, ok := a.(Ref); ok && !r.isNil() && !seen[r] {
				seen[r] = true
			}
		}
		_ = addArgs
		for r := range seen {
			// same pointee kind only (decided by the content's Go-level kind)
			if sameKind(s.load(r), u.Elem()) {
				cands = append(cands, r)
			}
		}
		// fresh cell with unconstrained content
		fr := s.alloc(e.havocByType(s, u.Elem(), prefix+".val"))
		cands = append(cands, fr)
		return cands
	case *types.Interface:
		for _, sc := range con.clauses("shape") {
			eq := strings.Index(sc.Raw, "=")
			if eq >= 0 && strings.TrimSpace(sc.Raw[:eq]) == fmt.Sprintf("result%d", k) && strings.TrimSpace(sc.Raw[eq+1:]) == "anystring" {
				var parts []string
				for _, a := range args {
					if r, ok := a.(Ref); ok && !r.isNil() {
						parts = append(parts, fmt.Sprintf("#%d", r.Cell))
					}
				}
				return []Val{Iface{Dyn: types.Typ[types.String], V: atom(sanitize(con.target()) + "(" + strings.Join(parts, ",") + ")")}}
			}
		}
	}
	unsupported("result of type %s needs a result shape", rt)
	return nil
}

func sameKind(v Val, t types.Type) bool {
	switch u := t.Underlying().(type) {
	case *types.Basic:
		tv, ok := v.(*T)
		if !ok {
			_, isText := v.(Text)
			return isText && u.Info()&types.IsString != 0
		}
		switch {
		case u.Info()&types.IsBoolean != 0:
			return tv.Sort == SBool
		case u.Info()&types.IsInteger != 0:
			return tv.Sort == SInt
		case u.Info()&types.IsFloat != 0:
			return tv.Sort == SReal
		}
	case *types.Interface:
		_, ok := v.(Iface)
		return ok
	}
	return false
}

// evalRef evaluates an lvalue expression (`*p`, `p.f`) to the location it names.
func (c *EvalCtx) evalRef(n *Node) (Ref, bool) {
	switch n.Kind {
	case "deref":
		r, ok := c.eval(n.Kids[0]).(Ref)
		return r, ok
	case "sel":
		base := c.eval(n.Kids[0])
		r, ok := base.(Ref)
		if !ok {
			// a struct held by value inside another location: x.y.f where y is a
			// struct field — take y's address first
			if _, isAgg := base.(*Agg); isAgg {
				r, ok = c.evalRef(n.Kids[0])
			}
		}
		if !ok || r.isNil() {
			return Ref{}, false
		}
		a, ok := c.st.load(r).(*Agg)
		if !ok {
			return Ref{}, false
		}
		i := structFieldIndex(a.Typ, n.Name)
		if i < 0 {
			return Ref{}, false
		}
		return r.sub(i), true
	case "ident":
		if m, ok := c.eval(n).(MapV); ok && m.Cell != 0 {
			return Ref{Cell: m.Cell}, true
		}
	}
	return Ref{}, false
}

// refTag names the object an interface/pointer argument refers to.
func refTag(v Val) string {
	if iv, ok := v.(Iface); ok {
		v = iv.V
	}
	switch x := v.(type) {
	case Ref:
		return fmt.Sprintf("c%d%s", x.Cell, strings.ReplaceAll(x.Path, "/", "_"))
	case Opaque:
		return sanitize(x.Tag)
	}
	return fmt.Sprintf("%T", v)
}

func isASCII(s string) bool {
	for i := 0; i < len(s); i++ {
		if s[i] >= 0x80 {
			return false
		}
	}
	return true
}

// deepEqualVal is reflect.DeepEqual on engine values where it is decidable
// (func values are deeply equal only if both are nil).
func deepEqualVal(s *State, a, b Val, depth int) (*T, bool) {
	if depth > 8 {
		return nil, false
	}
	switch x := a.(type) {
	case *T:
		y, ok := b.(*T)
		if !ok {
			return tFalse, true
		}
		return mkEq(x, y), true
	case Text:
		y, ok := b.(Text)
		if !ok {
			return tFalse, true
		}
		return textEq(x, y)
	case Closure:
		y, ok := b.(Closure)
		return mkBool(ok && x.Fn == nil && y.Fn == nil), true
	case Ref:
		y, ok := b.(Ref)
		if !ok {
			return tFalse, true
		}
		if x.isNil() || y.isNil() {
			return mkBool(x.isNil() && y.isNil()), true
		}
		if x == y {
			return tTrue, true
		}
		return deepEqualVal(s, s.load(x), s.load(y), depth+1)
	case Iface:
		y, ok := b.(Iface)
		if !ok {
			return tFalse, true
		}
		if x.Dyn == nil || y.Dyn == nil {
			return mkBool(x.Dyn == nil && y.Dyn == nil), true
		}
		if x.Dyn.String() != y.Dyn.String() {
			return tFalse, true
		}
		return deepEqualVal(s, x.V, y.V, depth+1)
	case *Agg:
		y, ok := b.(*Agg)
		if !ok || len(x.Elems) != len(y.Elems) {
			return tFalse, true
		}
		var cs []*T
		for i := range x.Elems {
			t, ok := deepEqualVal(s, x.Elems[i], y.Elems[i], depth+1)
			if !ok {
				// this component cannot be decided: an unknown of its own, so that the
				// components that CAN be decided still constrain the whole (two structs
				// with different values in one field are not deeply equal)
				h := fnv.New64a()
				fmt.Fprintf(h, "%v|%v|%d|%d", x.Elems[i], y.Elems[i], depth, i)
				t = mkVar(fmt.Sprintf("deepeq?!%x", h.Sum64()), SBool)
			}
			cs = append(cs, t)
		}
		return mkAnd(cs...), true
	case SliceV:
		y, ok := b.(SliceV)
		if !ok || x.Len_ != y.Len_ || x.Arr.isNil() != y.Arr.isNil() {
			return tFalse, true
		}
		var cs []*T
		for i := 0; i < x.Len_; i++ {
			t, ok := deepEqualVal(s, s.load(x.Arr.sub(x.Lo+i)), s.load(y.Arr.sub(y.Lo+i)), depth+1)
			if !ok {
				return nil, false
			}
			cs = append(cs, t)
		}
		return mkAnd(cs...), true
	}
	return nil, false
}

// writeReachable overwrites every heap cell reachable from v through pointers,
// maps and interfaces (not through slice backing arrays) with an opaque value:
// the footprint an external in-place merger may touch.
func (e *Exec) writeReachable(s *State, v Val, seen map[int]bool, tag string) {
	switch x := v.(type) {
	case Ref:
		if x.isNil() || seen[x.Cell] {
			return
		}
		seen[x.Cell] = true
		cur := s.Heap[x.Cell]
		s.Heap[x.Cell] = Opaque{Tag: tag}
		e.writeReachable(s, cur, seen, tag)
		// what an earlier merge may have made this destination point to
		if al, ok := s.Ghost[fmt.Sprintf("mergo-alias:%d", x.Cell)].(aliasSet); ok {
			for _, c := range sortedAlias(al) {
				if !seen[c] {
					seen[c] = true
					s.Heap[c] = Opaque{Tag: tag}
				}
			}
		}
	case *Agg:
		for _, el := range x.Elems {
			e.writeReachable(s, el, seen, tag)
		}
	case MapV:
		if x.Cell == 0 || seen[x.Cell] {
			return
		}
		seen[x.Cell] = true
		cur := s.Heap[x.Cell]
		s.Heap[x.Cell] = Opaque{Tag: tag}
		if ma, ok := cur.(*MapAgg); ok {
			for _, el := range ma.Vals {
				e.writeReachable(s, el, seen, tag)
			}
		}
	case Iface:
		e.writeReachable(s, x.V, seen, tag)
	}
}

// aliasSet: heap cells a merged destination may point into (already closed under
// reachability at the time of the merge).
type aliasSet map[int]bool

func sortedAlias(a aliasSet) []int {
	var ks []int
	for k := range a {
		ks = append(ks, k)
	}
	sort.Ints(ks)
	return ks
}

// pointees collects the cells that the pointers stored in v point to, and all
// that is reachable from them. top: v is the source struct itself — its own map
// cells and slice arrays are rebuilt by the merger, only their contents alias.
func (e *Exec) pointees(s *State, v Val, into map[int]bool, top bool) {
	switch x := v.(type) {
	case Ref:
		if x.isNil() || into[x.Cell] {
			return
		}
		into[x.Cell] = true
		e.pointees(s, s.Heap[x.Cell], into, false)
	case *Agg:
		for _, el := range x.Elems {
			e.pointees(s, el, into, top)
		}
	case MapV:
		if x.Cell == 0 {
			return
		}
		if !top {
			if into[x.Cell] {
				return
			}
			into[x.Cell] = true
		}
		if ma, ok := s.Heap[x.Cell].(*MapAgg); ok {
			for _, el := range ma.Vals {
				e.pointees(s, el, into, false)
			}
		}
	case SliceV:
		if x.Arr.isNil() {
			return
		}
		if arr, ok := s.Heap[x.Arr.Cell].(*Agg); ok {
			for k := 0; k < x.Len_ && x.Lo+k < len(arr.Elems); k++ {
				e.pointees(s, arr.Elems[x.Lo+k], into, false)
			}
		}
	case Iface:
		e.pointees(s, x.V, into, top)
	}
}
