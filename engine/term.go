package main

// SMT terms with light constant folding. Sorts: Bool, Int (mathematical
// integers: generator-side int, document integers), Real (float64 values are
// modelled as the real number they denote; see DESIGN §3.2b).

import (
	"fmt"
	"hash/fnv"
	"math/big"
	"sort"
	"strings"
	"sync/atomic"
)

type Sort int

const (
	SBool Sort = iota
	SInt
	SReal
)

func (s Sort) String() string {
	switch s {
	case SBool:
		return "Bool"
	case SInt:
		return "Int"
	}
	return "Real"
}

// T is an SMT term. Op "var" uses Name; Op "num" uses Num; Op "bool" uses B.
type T struct {
	Op   string
	Args []*T
	Sort Sort
	Name string
	Num  *big.Rat
	B    bool
}

var (
	tTrue  = &T{Op: "bool", Sort: SBool, B: true}
	tFalse = &T{Op: "bool", Sort: SBool, B: false}
)

func mkBool(b bool) *T {
	if b {
		return tTrue
	}
	return tFalse
}

func mkVar(name string, s Sort) *T { return &T{Op: "var", Name: name, Sort: s} }

func mkInt(i int64) *T { return &T{Op: "num", Sort: SInt, Num: new(big.Rat).SetInt64(i)} }

func mkIntBig(i *big.Int) *T { return &T{Op: "num", Sort: SInt, Num: new(big.Rat).SetInt(i)} }

func mkReal(r *big.Rat) *T { return &T{Op: "num", Sort: SReal, Num: r} }

func (t *T) isConst() bool { return t.Op == "bool" || t.Op == "num" }
func (t *T) isTrue() bool  { return t.Op == "bool" && t.B }
func (t *T) isFalse() bool { return t.Op == "bool" && !t.B }

func (t *T) intVal() (int64, bool) {
	if t.Op == "num" && t.Num.IsInt() && t.Num.Num().IsInt64() {
		return t.Num.Num().Int64(), true
	}
	return 0, false
}

func mkNot(a *T) *T {
	if a.Op == "bool" {
		return mkBool(!a.B)
	}
	if a.Op == "not" {
		return a.Args[0]
	}
	return &T{Op: "not", Args: []*T{a}, Sort: SBool}
}

func mkAnd(as ...*T) *T {
	var out []*T
	for _, a := range as {
		if a.isFalse() {
			return tFalse
		}
		if a.isTrue() {
			continue
		}
		if a.Op == "and" {
			out = append(out, a.Args...)
			continue
		}
		out = append(out, a)
	}
	switch len(out) {
	case 0:
		return tTrue
	case 1:
		return out[0]
	}
	return &T{Op: "and", Args: out, Sort: SBool}
}

func mkOr(as ...*T) *T {
	var out []*T
	for _, a := range as {
		if a.isTrue() {
			return tTrue
		}
		if a.isFalse() {
			continue
		}
		if a.Op == "or" {
			out = append(out, a.Args...)
			continue
		}
		out = append(out, a)
	}
	switch len(out) {
	case 0:
		return tFalse
	case 1:
		return out[0]
	}
	return &T{Op: "or", Args: out, Sort: SBool}
}

func mkImplies(a, b *T) *T {
	if a.isFalse() || b.isTrue() {
		return tTrue
	}
	if a.isTrue() {
		return b
	}
	if b.isFalse() {
		return mkNot(a)
	}
	return &T{Op: "=>", Args: []*T{a, b}, Sort: SBool}
}

func mkIff(a, b *T) *T {
	if a.Op == "bool" {
		if a.B {
			return b
		}
		return mkNot(b)
	}
	if b.Op == "bool" {
		if b.B {
			return a
		}
		return mkNot(a)
	}
	return &T{Op: "=", Args: []*T{a, b}, Sort: SBool}
}

func mkIte(c, a, b *T) *T {
	if c.isTrue() {
		return a
	}
	if c.isFalse() {
		return b
	}
	if a.Sort == SBool {
		return mkAnd(mkImplies(c, a), mkImplies(mkNot(c), b))
	}
	a, b = unify(a, b)
	if termEq(a, b) {
		return a
	}
	return &T{Op: "ite", Args: []*T{c, a, b}, Sort: a.Sort}
}

// unify promotes Int to Real when sorts are mixed.
func unify(a, b *T) (*T, *T) {
	if a.Sort == b.Sort {
		return a, b
	}
	if a.Sort == SInt && b.Sort == SReal {
		return toReal(a), b
	}
	if a.Sort == SReal && b.Sort == SInt {
		return a, toReal(b)
	}
	panic(fmt.Sprintf("sort mismatch %v vs %v (%s, %s)", a.Sort, b.Sort, a, b))
}

func toReal(a *T) *T {
	if a.Sort == SReal {
		return a
	}
	if a.Sort != SInt {
		panic("toReal of " + a.Sort.String())
	}
	if a.Op == "num" {
		return mkReal(a.Num)
	}
	return &T{Op: "to_real", Args: []*T{a}, Sort: SReal}
}

// floorInt is SMT-LIB to_int (floor).
func floorInt(a *T) *T {
	if a.Sort == SInt {
		return a
	}
	if a.Op == "num" {
		n := new(big.Int).Div(a.Num.Num(), a.Num.Denom()) // Euclidean; denom > 0 so floor
		return mkIntBig(n)
	}
	if a.Op == "to_real" {
		return a.Args[0]
	}
	return &T{Op: "to_int", Args: []*T{a}, Sort: SInt}
}

func termEq(a, b *T) bool {
	if a == b {
		return true
	}
	if a.Op != b.Op || a.Sort != b.Sort || len(a.Args) != len(b.Args) {
		return false
	}
	switch a.Op {
	case "var":
		return a.Name == b.Name
	case "num":
		return a.Num.Cmp(b.Num) == 0
	case "bool":
		return a.B == b.B
	}
	for i := range a.Args {
		if !termEq(a.Args[i], b.Args[i]) {
			return false
		}
	}
	return true
}

func mkEq(a, b *T) *T {
	if a.Sort == SBool && b.Sort == SBool {
		return mkIff(a, b)
	}
	a, b = unify(a, b)
	if a.Op == "num" && b.Op == "num" {
		return mkBool(a.Num.Cmp(b.Num) == 0)
	}
	if termEq(a, b) {
		return tTrue
	}
	return &T{Op: "=", Args: []*T{a, b}, Sort: SBool}
}

func mkCmp(op string, a, b *T) *T {
	a, b = unify(a, b)
	if a.Op == "num" && b.Op == "num" {
		c := a.Num.Cmp(b.Num)
		switch op {
		case "<":
			return mkBool(c < 0)
		case "<=":
			return mkBool(c <= 0)
		case ">":
			return mkBool(c > 0)
		case ">=":
			return mkBool(c >= 0)
		}
	}
	if termEq(a, b) {
		return mkBool(op == "<=" || op == ">=")
	}
	return &T{Op: op, Args: []*T{a, b}, Sort: SBool}
}

func mkArith(op string, a, b *T) *T {
	a, b = unify(a, b)
	if a.Op == "num" && b.Op == "num" {
		r := new(big.Rat)
		switch op {
		case "+":
			r.Add(a.Num, b.Num)
			return &T{Op: "num", Sort: a.Sort, Num: r}
		case "-":
			r.Sub(a.Num, b.Num)
			return &T{Op: "num", Sort: a.Sort, Num: r}
		case "*":
			r.Mul(a.Num, b.Num)
			return &T{Op: "num", Sort: a.Sort, Num: r}
		}
	}
	if op == "+" && b.Op == "num" && b.Num.Sign() == 0 {
		return a
	}
	if op == "+" && a.Op == "num" && a.Num.Sign() == 0 {
		return b
	}
	if op == "-" && b.Op == "num" && b.Num.Sign() == 0 {
		return a
	}
	return &T{Op: op, Args: []*T{a, b}, Sort: a.Sort}
}

// mkIntDiv / mkIntMod follow Go semantics (truncation toward zero) for
// mathematical integers, expressed with SMT-LIB div/mod (Euclidean).
func mkGoMod(a, b *T) *T {
	if a.Sort != SInt || b.Sort != SInt {
		panic("mod on non-int")
	}
	if ai, ok := a.intVal(); ok {
		if bi, ok := b.intVal(); ok && bi != 0 {
			return mkInt(ai % bi)
		}
	}
	// Go: a % b has the sign of a. SMT mod is in [0,|b|).
	m := &T{Op: "mod", Args: []*T{a, b}, Sort: SInt}
	absb := mkIte(mkCmp(">=", b, mkInt(0)), b, mkArith("-", mkInt(0), b))
	return mkIte(mkOr(mkCmp(">=", a, mkInt(0)), mkEq(m, mkInt(0))), m, mkArith("-", m, absb))
}

func (t *T) String() string {
	var sb strings.Builder
	t.write(&sb)
	return sb.String()
}

func smtNum(r *big.Rat, s Sort) string {
	neg := r.Sign() < 0
	a := new(big.Rat).Abs(r)
	var body string
	if s == SInt {
		if !a.IsInt() {
			panic("non-integral Int literal")
		}
		body = a.Num().String()
	} else if a.IsInt() {
		body = a.Num().String() + ".0"
	} else {
		body = "(/ " + a.Num().String() + ".0 " + a.Denom().String() + ".0)"
	}
	if neg {
		return "(- " + body + ")"
	}
	return body
}

func (t *T) write(sb *strings.Builder) {
	switch t.Op {
	case "var":
		sb.WriteString(smtName(t.Name))
	case "bool":
		if t.B {
			sb.WriteString("true")
		} else {
			sb.WriteString("false")
		}
	case "num":
		sb.WriteString(smtNum(t.Num, t.Sort))
	case "forall":
		sb.WriteString("(forall ((" + smtName(t.Name) + " " + t.Args[0].Sort.String() + ")) ")
		t.Args[1].write(sb)
		sb.WriteByte(')')
	default:
		sb.WriteByte('(')
		sb.WriteString(t.Op)
		for _, a := range t.Args {
			sb.WriteByte(' ')
			a.write(sb)
		}
		sb.WriteByte(')')
	}
}

func smtName(n string) string {
	ok := true
	for _, c := range n {
		if !(c >= 'a' && c <= 'z' || c >= 'A' && c <= 'Z' || c >= '0' && c <= '9' || c == '_' || c == '.' || c == '!' || c == '$' || c == '#') {
			ok = false
		}
	}
	if ok && n != "" {
		return n
	}
	return "|" + strings.ReplaceAll(n, "|", "!") + "|"
}

// freeVars collects the variables of t (name -> sort).
func freeVars(t *T, into map[string]Sort) {
	if t.Op == "var" {
		into[t.Name] = t.Sort
		return
	}
	if t.Op == "forall" {
		inner := map[string]Sort{}
		freeVars(t.Args[1], inner)
		delete(inner, t.Name)
		for k, v := range inner {
			into[k] = v
		}
		return
	}
	for _, a := range t.Args {
		freeVars(a, into)
	}
}

func sortedVarNames(m map[string]Sort) []string {
	var ks []string
	for k := range m {
		ks = append(ks, k)
	}
	sort.Strings(ks)
	return ks
}

// subst replaces variables by terms.
func subst(t *T, m map[string]*T) *T {
	switch t.Op {
	case "var":
		if r, ok := m[t.Name]; ok {
			return r
		}
		return t
	case "num", "bool":
		return t
	case "forall":
		m2 := map[string]*T{}
		for k, v := range m {
			if k != t.Name {
				m2[k] = v
			}
		}
		return mkForall(t.Args[0], subst(t.Args[1], m2))
	}
	args := make([]*T, len(t.Args))
	for i, a := range t.Args {
		args[i] = subst(a, m)
	}
	return rebuild(t.Op, t.Sort, args)
}

// rebuild re-applies the folding constructors (used after substitution of
// model values so that a closed term evaluates to a constant).
func rebuild(op string, s Sort, args []*T) *T {
	switch op {
	case "not":
		return mkNot(args[0])
	case "and":
		return mkAnd(args...)
	case "or":
		return mkOr(args...)
	case "=>":
		return mkImplies(args[0], args[1])
	case "ite":
		return mkIte(args[0], args[1], args[2])
	case "=":
		return mkEq(args[0], args[1])
	case "<", "<=", ">", ">=":
		return mkCmp(op, args[0], args[1])
	case "+", "-", "*":
		return mkArith(op, args[0], args[1])
	case "to_real":
		return toReal(args[0])
	case "to_int":
		return floorInt(args[0])
	case "div":
		if args[0].Op == "num" && args[1].Op == "num" && args[1].Num.Sign() != 0 {
			a, b := args[0].Num.Num(), args[1].Num.Num()
			q, m := new(big.Int).DivMod(a, b, new(big.Int)) // Euclidean
			_ = m
			return mkIntBig(q)
		}
	case "mod":
		if args[0].Op == "num" && args[1].Op == "num" && args[1].Num.Sign() != 0 {
			a, b := args[0].Num.Num(), args[1].Num.Num()
			_, m := new(big.Int).DivMod(a, b, new(big.Int))
			return mkIntBig(m)
		}
		if a, ok := args[0].intVal(); ok {
			if b, ok := args[1].intVal(); ok && b != 0 {
				m := a % b
				if m < 0 {
					if b < 0 {
						m -= b
					} else {
						m += b
					}
				}
				return mkInt(m)
			}
		}
	}
	return &T{Op: op, Args: args, Sort: s}
}

// mkForall binds the variable v in body.
func mkForall(v *T, body *T) *T {
	if body.isConst() {
		return body
	}
	return &T{Op: "forall", Name: v.Name, Sort: SBool, Args: []*T{v, body}}
}

// isIntegral: syntactic integrality of a (Real- or Int-sorted) term.
func isIntegral(t *T) bool {
	if t.Sort == SInt {
		return true
	}
	switch t.Op {
	case "num":
		return t.Num.IsInt()
	case "to_real":
		return true
	case "+", "-", "*":
		for _, a := range t.Args {
			if !isIntegral(a) {
				return false
			}
		}
		return true
	case "ite":
		return isIntegral(t.Args[1]) && isIntegral(t.Args[2])
	}
	return false
}

// toIntTerm converts a syntactically integral term to sort Int.
func toIntTerm(t *T) *T {
	if t.Sort == SInt {
		return t
	}
	switch t.Op {
	case "num":
		return mkIntBig(t.Num.Num())
	case "to_real":
		return t.Args[0]
	case "+", "-", "*":
		return mkArith(t.Op, toIntTerm(t.Args[0]), toIntTerm(t.Args[1]))
	case "ite":
		return mkIte(t.Args[0], toIntTerm(t.Args[1]), toIntTerm(t.Args[2]))
	}
	panic("toIntTerm of non-integral term " + t.String())
}

func mkIsInt(t *T) *T {
	if isIntegral(t) {
		return tTrue
	}
	return mkEq(toReal(floorInt(t)), t)
}

// numCtx provides floor as an Int term; providers introduce a fresh integer k
// with k <= a < k+1 instead of SMT to_int (far easier for the solvers).
type numCtx struct {
	floorFn func(a *T) *T
}

func (n numCtx) floor(a *T) *T {
	if a.Sort == SInt {
		return a
	}
	if a.Op == "num" {
		return floorInt(a)
	}
	if isIntegral(a) {
		return toIntTerm(a)
	}
	return n.floorFn(a)
}

func (n numCtx) ceil(a *T) *T {
	if a.Sort == SInt {
		return a
	}
	return mkArith("-", mkInt(0), n.floor(mkArith("-", mkReal(ratInt(0)), a)))
}

// trunc64 is Go's float64 -> int64 conversion on amd64: truncation toward zero
// inside [-2^63, 2^63), 0x8000000000000000 (MinInt64) outside.
func (n numCtx) trunc64(a *T) *T {
	a = toReal(a)
	zero := mkReal(ratInt(0))
	tr := mkIte(mkCmp(">=", a, zero), n.floor(a), n.ceil(a))
	lo := mkReal(new(big.Rat).SetInt(new(big.Int).Neg(pow2(63))))
	hi := mkReal(new(big.Rat).SetInt(pow2(63)))
	in := mkAnd(mkCmp(">=", a, lo), mkCmp("<", a, hi))
	return mkIte(in, tr, mkIntBig(new(big.Int).Neg(pow2(63))))
}

// round is math.Round (half away from zero) on the real value.
func (n numCtx) round(a *T) *T {
	a = toReal(a)
	if isIntegral(a) {
		return a
	}
	zero := mkReal(ratInt(0))
	half := mkReal(big.NewRat(1, 2))
	pos := n.floor(mkArith("+", a, half))
	neg := n.ceil(mkArith("-", a, half))
	return toReal(mkIte(mkCmp(">=", a, zero), pos, neg))
}

var freshCounter int64

var _ = atomic.AddInt64

// floor variables are named after their argument, so the same floor is the
// same variable everywhere (definitions may then be asserted more than once).
func freshIntDef(a *T, sink func(*T)) *T {
	k := mkVar("flr!"+hashTerm(a), SInt)
	kr := toReal(k)
	sink(mkAnd(mkCmp("<=", kr, a), mkCmp("<", a, mkArith("+", kr, mkReal(ratInt(1))))))
	return k
}

var plainNum = numCtx{floorFn: func(a *T) *T { return floorInt(a) }}

func hashTerm(t *T) string {
	h := fnv.New64a()
	h.Write([]byte(t.String()))
	return fmt.Sprintf("%x", h.Sum64())
}
