package main

// Stage 2: meaning of emitted Go fragments (filled in below).

func (c *EvalCtx) stage2Builtin(n *Node) (Val, bool) {
	return nil, false
}
