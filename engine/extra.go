package main

// Extra (non-SSA-path) obligation families per property; filled in by later files.

type Extra struct {
	Obs         []*Oblig
	Count       int // named obligations decided without the solver pool
	Discharged  int
	KnownSeen   []string
	KnownIDs    []string
	Assumptions []string
	Samples     []interface{}
	Coverage    map[string]interface{}
	Lines       []string
}

func (w *World) extraChecks(id string, opts *RunOpts) *Extra {
	return &Extra{Coverage: map[string]interface{}{}}
}
