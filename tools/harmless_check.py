#!/usr/bin/env python3
"""Applies every semantics-preserving patch of selftest/harmless to /repo, runs every registered
quick check, reverts. Any VIOLATION / non-zero exit is a FALSE ALARM of the machinery."""
import json, os, subprocess, sys, glob, concurrent.futures
HERE = os.path.dirname(os.path.dirname(os.path.abspath(__file__)))
claimed = [c['property_id'] for c in json.load(open(os.path.join(HERE, 'MANIFEST.json')))['checks']]
sel = [a for a in sys.argv[1:]]
assert subprocess.run(['git', '-C', '/repo', 'status', '--porcelain', '--untracked-files=no'], capture_output=True, text=True).stdout.strip() == ''
def run(p):
    r = subprocess.run([os.path.join(HERE, 'verif.sh'), 'check', p, 'quick'], capture_output=True, text=True, cwd=HERE)
    bad = [l for l in r.stdout.splitlines() if l.startswith('VIOLATION') or l.startswith('ENGINE') or l.strip().startswith('failed obligation')]
    und = [l for l in r.stdout.splitlines() if l.startswith('UNDECIDED') or l.startswith('note')]
    return p, r.returncode, bad, und
total_alarms = 0
for d in sorted(glob.glob(os.path.join(HERE, 'selftest', 'harmless', '*.diff'))):
    name = os.path.basename(d)
    if sel and not any(s in name for s in sel):
        continue
    ap = subprocess.run(['git', '-C', '/repo', 'apply', d], capture_output=True, text=True)
    if ap.returncode != 0:
        print(name, 'DOES NOT APPLY', ap.stderr.strip()); continue
    try:
        with concurrent.futures.ThreadPoolExecutor(max_workers=4) as ex:
            results = list(ex.map(run, claimed))
    finally:
        subprocess.run(['git', '-C', '/repo', 'checkout', '--', '.'])
    alarms = [(p, rc, bad) for p, rc, bad, und in results if rc != 0 or bad]
    total_alarms += len(alarms)
    print(f"{name:45s} {'OK (no alarm)' if not alarms else 'FALSE ALARM in ' + ','.join(a[0] for a in alarms)}")
    for p, rc, bad in alarms:
        for l in bad[:3]: print('      ', p, rc, l[:200])
    for p, rc, bad, und in results:
        for l in und[:2]: print('       (undecided)', p, l[:160])
sys.exit(1 if total_alarms else 0)
