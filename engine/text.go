package main

// Text: the "string with holes" domain (DESIGN §3.4). A string value is a
// sequence of concrete fragments, atoms (unknown strings that stand for inputs
// such as a field name; only their emptiness is ever tested by control flow)
// and numeric holes (a symbolic number printed with a fmt verb).

import (
	"fmt"
	"strings"
)

type FragKind int

const (
	FLit FragKind = iota
	FAtom
	FNum
)

type Frag struct {
	Kind   FragKind
	Lit    string
	Atom   string // atom name, e.g. "v.fieldName" or "upper(format)"
	Term   *T     // FNum: the number
	Verb   byte   // FNum: 'v', 'd', 'f'
	GoType string // FNum: "int64", "float64", "int"
}

type Text struct{ Frags []Frag }

func lit(s string) Text {
	if s == "" {
		return Text{}
	}
	return Text{[]Frag{{Kind: FLit, Lit: s}}}
}

func atom(name string) Text { return Text{[]Frag{{Kind: FAtom, Atom: name}}} }

func (t Text) concrete() (string, bool) {
	var sb strings.Builder
	for _, f := range t.Frags {
		if f.Kind != FLit {
			return "", false
		}
		sb.WriteString(f.Lit)
	}
	return sb.String(), true
}

func (t Text) concat(u Text) Text {
	out := append([]Frag{}, t.Frags...)
	for _, f := range u.Frags {
		if f.Kind == FLit && len(out) > 0 && out[len(out)-1].Kind == FLit {
			out[len(out)-1].Lit += f.Lit
			continue
		}
		if f.Kind == FLit && f.Lit == "" {
			continue
		}
		out = append(out, f)
	}
	return Text{out}
}

func (t Text) String() string {
	var sb strings.Builder
	for _, f := range t.Frags {
		switch f.Kind {
		case FLit:
			sb.WriteString(f.Lit)
		case FAtom:
			sb.WriteString("⟦" + f.Atom + "⟧")
		case FNum:
			sb.WriteString("⟦" + f.Term.String() + ":" + f.GoType + "⟧")
		}
	}
	return sb.String()
}

func atomEmptyVar(name string) *T { return mkVar("empty!"+name, SBool) }

// isEmpty returns the condition under which the text is the empty string.
func (t Text) isEmpty() *T {
	conds := []*T{}
	for _, f := range t.Frags {
		switch f.Kind {
		case FLit:
			if f.Lit != "" {
				return tFalse
			}
		case FAtom:
			conds = append(conds, atomEmptyVar(f.Atom))
		case FNum:
			return tFalse
		}
	}
	return mkAnd(conds...)
}

// textEq decides equality where it can; otherwise it reports !ok.
func textEq(a, b Text) (*T, bool) {
	as, aok := a.concrete()
	bs, bok := b.concrete()
	if aok && bok {
		return mkBool(as == bs), true
	}
	if aok && as == "" {
		return b.isEmpty(), true
	}
	if bok && bs == "" {
		return a.isEmpty(), true
	}
	if len(a.Frags) == len(b.Frags) {
		same := true
		for i := range a.Frags {
			x, y := a.Frags[i], b.Frags[i]
			if x.Kind != y.Kind || x.Lit != y.Lit || x.Atom != y.Atom || (x.Kind == FNum && !termEq(x.Term, y.Term)) {
				same = false
			}
		}
		if same {
			return tTrue, true
		}
	}
	// One text is the other followed by more fragments of which at least one is a
	// non-empty literal or a number: the lengths differ, the strings differ.
	{
		short, long := a, b
		if len(short.Frags) > len(long.Frags) {
			short, long = long, short
		}
		if len(short.Frags) < len(long.Frags) {
			prefix := true
			for i := range short.Frags {
				x, y := short.Frags[i], long.Frags[i]
				if x.Kind != y.Kind || x.Lit != y.Lit || x.Atom != y.Atom || (x.Kind == FNum && !termEq(x.Term, y.Term)) {
					prefix = false
				}
			}
			if prefix {
				for _, f := range long.Frags[len(short.Frags):] {
					if (f.Kind == FLit && f.Lit != "") || f.Kind == FNum {
						return tFalse, true
					}
				}
			}
		}
	}
	// An atom compared with a concrete non-empty string: an uninterpreted fact
	// (false outright when the atom has a declared finite domain without it).
	if len(a.Frags) == 1 && a.Frags[0].Kind == FAtom && bok {
		if !inAtomDomain(a.Frags[0].Atom, bs) {
			return tFalse, true
		}
		// equal to a non-empty literal implies non-empty
		return mkAnd(mkVar(fmt.Sprintf("eq!%s!%q", a.Frags[0].Atom, bs), SBool), mkNot(atomEmptyVar(a.Frags[0].Atom))), true
	}
	if len(b.Frags) == 1 && b.Frags[0].Kind == FAtom && aok {
		if !inAtomDomain(b.Frags[0].Atom, as) {
			return tFalse, true
		}
		return mkAnd(mkVar(fmt.Sprintf("eq!%s!%q", b.Frags[0].Atom, as), SBool), mkNot(atomEmptyVar(b.Frags[0].Atom))), true
	}
	if len(a.Frags) == 1 && a.Frags[0].Kind == FAtom && len(b.Frags) == 1 && b.Frags[0].Kind == FAtom {
		x, y := a.Frags[0].Atom, b.Frags[0].Atom
		if x > y {
			x, y = y, x
		}
		return mkVar(fmt.Sprintf("eq!%s!%s", x, y), SBool), true
	}
	return nil, false
}

// sprintf expands a concrete format over values (only %s %v %d %f %q %%).
func sprintf(s *State, format string, args []Val) Text {
	out := Text{}
	ai := 0
	i := 0
	for i < len(format) {
		c := format[i]
		if c != '%' {
			j := i
			for j < len(format) && format[j] != '%' {
				j++
			}
			out = out.concat(lit(format[i:j]))
			i = j
			continue
		}
		if i+1 >= len(format) {
			unsupported("fmt: trailing %% in %q", format)
		}
		verb := format[i+1]
		i += 2
		if verb == '%' {
			out = out.concat(lit("%"))
			continue
		}
		if ai >= len(args) {
			unsupported("fmt: missing argument for %%%c in %q", verb, format)
		}
		arg := args[ai]
		ai++
		out = out.concat(formatArg(s, verb, arg, format))
	}
	if ai != len(args) {
		unsupported("fmt: %d extra arguments in %q", len(args)-ai, format)
	}
	return out
}

func formatArg(s *State, verb byte, arg Val, format string) Text {
	goType := ""
	if iv, ok := arg.(Iface); ok {
		if iv.Dyn == nil {
			unsupported("fmt: nil interface argument in %q", format)
		}
		goType = iv.Dyn.String()
		arg = iv.V
	}
	switch verb {
	case 's', 'v', 'd', 'f', 'q':
	default:
		unsupported("fmt: verb %%%c not modelled (%q)", verb, format)
	}
	switch a := arg.(type) {
	case Text:
		if verb == 'q' {
			if cs, ok := a.concrete(); ok {
				return lit(fmt.Sprintf("%q", cs))
			}
			// %q of an atom: a quoted, escaped rendering; keep as a derived atom.
			if len(a.Frags) == 1 && a.Frags[0].Kind == FAtom {
				return lit(`"`).concat(atom("quoted(" + a.Frags[0].Atom + ")")).concat(lit(`"`))
			}
			unsupported("fmt: %%q of mixed text")
		}
		if verb != 's' && verb != 'v' {
			unsupported("fmt: %%%c of string", verb)
		}
		return a
	case *T:
		if a.Sort == SBool {
			unsupported("fmt: bool formatting not modelled")
		}
		if a.Op == "num" && a.Sort == SInt && (verb == 'd' || verb == 'v') {
			return lit(a.Num.Num().String())
		}
		if goType == "" {
			unsupported("fmt: numeric argument without interface type")
		}
		return Text{[]Frag{{Kind: FNum, Term: a, Verb: verb, GoType: goType}}}
	}
	if verb == 'v' || verb == 's' {
		// a composite value rendered by fmt: an unknown string (only used in messages)
		return atom(fmt.Sprintf("fmt(%T)", arg))
	}
	unsupported("fmt: argument of kind %T for %%%c in %q", arg, verb, format)
	return Text{}
}

// atomDomains: finite domains declared for result atoms (`shape resultK = ...`).
var atomDomains = map[string][]string{}

func inAtomDomain(atomName, s string) bool {
	d, ok := atomDomains[atomName]
	if !ok {
		return true
	}
	for _, x := range d {
		if x == s {
			return true
		}
	}
	return false
}
