package main

// Loading /repo's current working tree into go/ssa.

import (
	"fmt"
	"go/types"
	"os"
	"strings"

	"golang.org/x/tools/go/packages"
	"golang.org/x/tools/go/ssa"
	"golang.org/x/tools/go/ssa/ssautil"
)

type World struct {
	repo    string
	modPath string
	prog    *ssa.Program
	pkgs    []*packages.Package
	ssaPkgs map[string]*ssa.Package
	specs   *Specs
	loadErr []string
}

func repoEnv() []string {
	var env []string
	for _, kv := range os.Environ() {
		if strings.HasPrefix(kv, "GOFLAGS=") || strings.HasPrefix(kv, "GOWORK=") {
			continue
		}
		env = append(env, kv)
	}
	return append(env, "GOFLAGS=", "GOPROXY=off", "GOSUMDB=off", "GOTOOLCHAIN=local")
}

func loadWorld(repo string) (*World, error) {
	w := &World{repo: repo, ssaPkgs: map[string]*ssa.Package{}}
	cfg := &packages.Config{Mode: packages.LoadAllSyntax | packages.NeedModule, Dir: repo, Env: repoEnv()}
	pkgs, err := packages.Load(cfg, ".", "./pkg/...", "./internal/...")
	if err != nil {
		return nil, fmt.Errorf("packages.Load: %w", err)
	}
	for _, p := range pkgs {
		for _, e := range p.Errors {
			w.loadErr = append(w.loadErr, e.Error())
		}
	}
	if len(w.loadErr) > 0 {
		return nil, fmt.Errorf("load errors in /repo (does it build?): %s", strings.Join(w.loadErr, "; "))
	}
	w.pkgs = pkgs
	prog, spkgs := ssautil.AllPackages(pkgs, ssa.InstantiateGenerics)
	prog.Build()
	w.prog = prog
	for i, p := range pkgs {
		if spkgs[i] != nil {
			w.ssaPkgs[p.PkgPath] = spkgs[i]
		}
		if p.Name == "main" && p.Module != nil {
			w.modPath = p.Module.Path
		}
	}
	if w.modPath == "" {
		for _, p := range pkgs {
			if p.Module != nil {
				w.modPath = p.Module.Path
				break
			}
		}
	}
	sp, err := loadSpecs(repo)
	if err != nil {
		return nil, fmt.Errorf("contracts: %w", err)
	}
	w.specs = sp
	return w, nil
}

// findFunc resolves a contract's target. It returns nil when the function no
// longer exists (the contract's obligations are then undecided, not failed).
func (w *World) findFunc(con *Contract) *ssa.Function {
	var pkg *ssa.Package
	for path, p := range w.ssaPkgs {
		if path == w.modPath+"/"+con.Pkg || (con.Pkg == "" && path == w.modPath) {
			pkg = p
		}
	}
	if pkg == nil {
		return nil
	}
	name := con.target()
	if strings.HasPrefix(name, "(") {
		close := strings.Index(name, ")")
		recv := name[1:close]
		meth := name[close+2:]
		ptr := strings.HasPrefix(recv, "*")
		recv = strings.TrimPrefix(recv, "*")
		tn, ok := pkg.Members[recv].(*ssa.Type)
		if !ok {
			return nil
		}
		var t types.Type = tn.Type()
		if ptr {
			t = types.NewPointer(t)
		}
		sel := w.prog.MethodSets.MethodSet(t).Lookup(pkg.Pkg, meth)
		if sel == nil {
			return nil
		}
		return w.prog.MethodValue(sel)
	}
	if strings.Contains(name, "$") { // anonymous function: Parent$N
		parts := strings.SplitN(name, "$", 2)
		parent := pkg.Func(parts[0])
		if parent == nil {
			return nil
		}
		for _, af := range parent.AnonFuncs {
			if af.Name() == name {
				return af
			}
		}
		return nil
	}
	return pkg.Func(name)
}

func countInstrs(fn *ssa.Function) int {
	n := 0
	for _, b := range fn.Blocks {
		n += len(b.Instrs)
	}
	return n
}
