// e2egen drives the REAL generator (pkg/generator of /repo's current tree) for
// end-to-end replays: it reads a job on stdin, writes the schema files into a
// scratch directory, runs New/DoFile/Sources exactly as main.go does, and prints
// the emitted files, warnings and error as JSON.
package main

import (
	"encoding/json"
	"fmt"
	"os"
	"path/filepath"

	"github.com/atombender/go-jsonschema/pkg/generator"
)

type Job struct {
	Dir                 string            `json:"dir"`     // scratch directory for the schema files
	Schemas             map[string]string `json:"schemas"` // relative file name -> content
	Entries             []string          `json:"entries"` // files to pass to DoFile, in order
	Package             string            `json:"package"`
	Output              string            `json:"output"`
	ExtraImports        bool              `json:"extra_imports"`
	OnlyModels          bool              `json:"only_models"`
	MinSizedInts        bool              `json:"min_sized_ints"`
	StructNameFromTitle bool              `json:"struct_name_from_title"`
	Tags                []string          `json:"tags"`
	Capitalizations     []string          `json:"capitalizations"`
	ResolveExtensions   []string          `json:"resolve_extensions"`
	YAMLExtensions      []string          `json:"yaml_extensions"`
	Mappings            []generator.SchemaMapping `json:"mappings"`
}

type Result struct {
	Files    map[string]string `json:"files"`
	Warnings []string          `json:"warnings"`
	Error    string            `json:"error,omitempty"`
	Panic    string            `json:"panic,omitempty"`
}

func main() {
	var job Job
	if err := json.NewDecoder(os.Stdin).Decode(&job); err != nil {
		fmt.Fprintln(os.Stderr, "e2egen: bad job:", err)
		os.Exit(2)
	}
	res := Result{Files: map[string]string{}}
	defer func() {
		if r := recover(); r != nil {
			res.Panic = fmt.Sprint(r)
		}
		json.NewEncoder(os.Stdout).Encode(res)
	}()
	for name, content := range job.Schemas {
		p := filepath.Join(job.Dir, name)
		os.MkdirAll(filepath.Dir(p), 0o755)
		if err := os.WriteFile(p, []byte(content), 0o644); err != nil {
			res.Error = err.Error()
			return
		}
	}
	if job.Tags == nil {
		job.Tags = []string{"json", "yaml", "mapstructure"}
	}
	if job.YAMLExtensions == nil {
		job.YAMLExtensions = []string{".yml", ".yaml"}
	}
	if job.Output == "" {
		job.Output = "-"
	}
	if job.Package == "" {
		job.Package = "gen"
	}
	cfg := generator.Config{
		Warner:              func(m string) { res.Warnings = append(res.Warnings, m) },
		ExtraImports:        job.ExtraImports,
		Capitalizations:     job.Capitalizations,
		DefaultOutputName:   job.Output,
		DefaultPackageName:  job.Package,
		SchemaMappings:      job.Mappings,
		ResolveExtensions:   job.ResolveExtensions,
		YAMLExtensions:      job.YAMLExtensions,
		StructNameFromTitle: job.StructNameFromTitle,
		Tags:                job.Tags,
		OnlyModels:          job.OnlyModels,
		MinSizedInts:        job.MinSizedInts,
	}
	g, err := generator.New(cfg)
	if err != nil {
		res.Error = err.Error()
		return
	}
	for _, e := range job.Entries {
		if err := g.DoFile(filepath.Join(job.Dir, e)); err != nil {
			res.Error = err.Error()
			return
		}
	}
	for name, src := range g.Sources() {
		res.Files[name] = string(src)
	}
}
