package main

// `calls-ordered A before B` clauses: within one iteration of the enclosing
// loop (or within the function, if there is none) no event A may follow an event
// B. Events: allocation of a value whose type name contains the word, or a call
// whose callee name contains it. Abstract-mode obligation over the SSA
// control-flow graph, no solver.

import (
	"fmt"
	"go/constant"
	"go/token"
	"go/types"
	"os"
	"sort"
	"strconv"
	"strings"

	"golang.org/x/tools/go/ssa"
)

func isEvent(ins ssa.Instruction, word string) bool {
	switch i := ins.(type) {
	case *ssa.Alloc:
		return strings.Contains(i.Type().String(), word)
	case *ssa.Call:
		return strings.Contains(calleeName(i), word)
	}
	return false
}

// loopsOf returns header -> blocks of each natural loop of fn.
func loopsOf(fn *ssa.Function) map[*ssa.BasicBlock]map[*ssa.BasicBlock]bool {
	out := map[*ssa.BasicBlock]map[*ssa.BasicBlock]bool{}
	for _, h := range fn.Blocks {
		for _, p := range h.Preds {
			if !h.Dominates(p) {
				continue
			}
			body := out[h]
			if body == nil {
				body = map[*ssa.BasicBlock]bool{h: true}
				out[h] = body
			}
			var up func(b *ssa.BasicBlock)
			up = func(b *ssa.BasicBlock) {
				if body[b] {
					return
				}
				body[b] = true
				for _, q := range b.Preds {
					up(q)
				}
			}
			up(p)
		}
	}
	return out
}

func (w *World) flowClauses(id string, opts *RunOpts, ex *Extra) {
	report := func(name, bad string) {
		path := writeTextReplay(opts, id, name, bad+"\n(abstract-mode control-flow obligation over go/ssa)", "", "", "bin/govc check "+id)
		ex.Lines = append(ex.Lines, fmt.Sprintf("VIOLATION property=%s replay=%s no-failing-input-found", id, path))
		ex.Lines = append(ex.Lines, "  failed obligation: "+name+": "+bad)
		ex.Violations++
	}
	for _, c := range w.specs.Contracts {
		if !hasTag(c.Props, id) {
			continue
		}
		for _, cl := range c.Clauses {
			if cl.Kind != "every-iteration-calls" && cl.Kind != "iteration-local" {
				continue
			}
			word := strings.TrimSpace(cl.Raw)
			name := fmt.Sprintf("%s/%s:%s", c.Func, cl.Kind, word)
			fn := w.findFunc(c)
			ex.Count++
			if fn == nil {
				ex.Lines = append(ex.Lines, "UNDECIDED: "+c.Func+" not found; "+name+" is not checked")
				ex.Discharged++
				continue
			}
			loops := loopsOf(fn)
			switch cl.Kind {
			case "every-iteration-calls":
				found, bad := false, ""
				for h, body := range loops {
					has := false
					for b := range body {
						for _, ins := range b.Instrs {
							if isEvent(ins, word) {
								has = true
							}
						}
					}
					if !has {
						continue
					}
					found = true
					// can an iteration get from the body entry back to the header without the call?
					seen := map[*ssa.BasicBlock]bool{}
					var walk func(b *ssa.BasicBlock) bool
					walk = func(b *ssa.BasicBlock) bool {
						if b == h {
							return true
						}
						if !body[b] || seen[b] {
							return false
						}
						seen[b] = true
						for _, ins := range b.Instrs {
							if isEvent(ins, word) {
								return false
							}
						}
						for _, s := range b.Succs {
							if walk(s) {
								return true
							}
						}
						return false
					}
					for _, s := range h.Succs {
						if body[s] && s != h && walk(s) {
							p := w.prog.Fset.Position(h.Instrs[0].Pos())
							bad = fmt.Sprintf("an iteration of the loop at line %d can reach the next iteration without calling %s (an element is skipped)", p.Line, word)
						}
					}
				}
				switch {
				case !found:
					ex.Lines = append(ex.Lines, fmt.Sprintf("UNDECIDED: %s: no loop calling %s found in %s any more", name, word, c.Func))
					ex.Discharged++
				case bad != "":
					report(name, bad)
				default:
					ex.Discharged++
				}
			case "iteration-local":
				found, bad := false, ""
				for _, blk := range fn.Blocks {
					for _, ins := range blk.Instrs {
						al, ok := ins.(*ssa.Alloc)
						if !ok || !strings.Contains(al.Type().String(), word) {
							continue
						}
						found = true
						for _, ref := range *al.Referrers() {
							fa, ok := ref.(*ssa.FieldAddr)
							if !ok {
								continue
							}
							for _, r2 := range *fa.Referrers() {
								st, ok := r2.(*ssa.Store)
								if !ok {
									continue
								}
								for h, body := range loops {
									if body[st.Block()] && !body[al.Block()] {
										p := w.prog.Fset.Position(h.Instrs[0].Pos())
										bad = fmt.Sprintf("a %s allocated outside the loop at line %d is written inside it: fields set in one iteration survive into the next, so the result depends on the iteration order", word, p.Line)
									}
								}
							}
						}
					}
				}
				switch {
				case !found:
					ex.Lines = append(ex.Lines, fmt.Sprintf("UNDECIDED: %s: no %s value found in %s any more", name, word, c.Func))
					ex.Discharged++
				case bad != "":
					report(name, bad)
				default:
					ex.Discharged++
				}
			}
		}
	}
}

// fieldNameOf: the struct field a loaded value comes from ("" if it is not a field load).
func fieldNameOf(v ssa.Value) string {
	// a field value handed on as another interface type is still that field
	for {
		if ci, ok := v.(*ssa.ChangeInterface); ok {
			v = ci.X
			continue
		}
		if mi, ok := v.(*ssa.MakeInterface); ok {
			v = mi.X
			continue
		}
		break
	}
	switch x := v.(type) {
	case *ssa.FieldAddr: // &x.F passed directly
		if pt, ok := x.X.Type().Underlying().(*types.Pointer); ok {
			if st, ok := pt.Elem().Underlying().(*types.Struct); ok {
				return st.Field(x.Field).Name()
			}
		}
	case *ssa.UnOp:
		if fa, ok := x.X.(*ssa.FieldAddr); ok {
			if pt, ok := fa.X.Type().Underlying().(*types.Pointer); ok {
				if st, ok := pt.Elem().Underlying().(*types.Struct); ok {
					return st.Field(fa.Field).Name()
				}
			}
		}
	case *ssa.Field:
		if st, ok := x.X.Type().Underlying().(*types.Struct); ok {
			return st.Field(x.Field).Name()
		}
	}
	return ""
}

// argFrom: `arg-from <callee> <k> call:<callee2>:<r>` / `field:<Name>` — where
// the k-th argument of every call of <callee> in the function comes from.
func (w *World) argFrom(id string, opts *RunOpts, ex *Extra) {
	for _, c := range w.specs.Contracts {
		if !hasTag(c.Props, id) {
			continue
		}
		for _, cl := range c.Clauses {
			if cl.Kind != "arg-from" {
				continue
			}
			f := strings.Fields(cl.Raw)
			if len(f) != 3 {
				continue
			}
			callee, src := f[0], f[2]
			var k int
			fmt.Sscan(f[1], &k)
			name := fmt.Sprintf("%s/arg-from:%s#%d<-%s", c.Func, callee, k, src)
			fn := w.findFunc(c)
			ex.Count++
			if fn == nil {
				ex.Lines = append(ex.Lines, "UNDECIDED: "+c.Func+" not found; "+name+" is not checked")
				ex.Discharged++
				continue
			}
			found, bad := 0, ""
			for _, b := range fn.Blocks {
				for _, ins := range b.Instrs {
					call, ok := ins.(*ssa.Call)
					if !ok || !calleeMatches(calleeName(call), callee) {
						continue
					}
					args := call.Call.Args
					off := 0
					if call.Call.StaticCallee() != nil && call.Call.StaticCallee().Signature.Recv() != nil {
						off = 1 // receiver is args[0] for static method calls
					}
					if k+off >= len(args) {
						continue
					}
					found++
					av := args[k+off]
					// a variadic callee: its k-th element was stored into the packed slice
					if sl, isSl := av.(*ssa.Slice); isSl && call.Call.Signature().Variadic() && k+off == len(args)-1 {
						if al, isAl := sl.X.(*ssa.Alloc); isAl {
							for _, r := range *al.Referrers() {
								ia, ok := r.(*ssa.IndexAddr)
								if !ok {
									continue
								}
								if ci, ok := ia.Index.(*ssa.Const); !ok || ci.Int64() != 0 {
									continue
								}
								for _, r2 := range *ia.Referrers() {
									if st, ok := r2.(*ssa.Store); ok {
										av = st.Val
									}
								}
							}
						}
					}
					okFlow := false
					what := av.String()
					switch {
					case strings.HasPrefix(src, "call:"):
						p := strings.Split(src, ":")
						var r int
						if len(p) > 2 {
							fmt.Sscan(p[2], &r)
						}
						if ex2, isEx := av.(*ssa.Extract); isEx {
							if c2, isCall := ex2.Tuple.(*ssa.Call); isCall && strings.Contains(calleeName(c2), p[1]) && ex2.Index == r {
								okFlow = true
							}
						}
						if c2, isCall := av.(*ssa.Call); isCall && strings.Contains(calleeName(c2), p[1]) {
							okFlow = true
						}
					case strings.HasPrefix(src, "range:param:"):
						// the argument is the element variable of a `for _, x := range <param>` loop
						// over the parameter itself (every element, in order)
						rv := av
						if mi, isMI := rv.(*ssa.MakeInterface); isMI { // passed as interface{}
							rv = mi.X
						}
						if ld, isLd := rv.(*ssa.UnOp); isLd && ld.Op == token.MUL {
							if ia, isIA := ld.X.(*ssa.IndexAddr); isIA {
								if pv, isP := ia.X.(*ssa.Parameter); isP {
									// any way of walking the parameter will do (range, an index loop);
									// what matters is that the element handed on is the parameter's own
									what = "an element of parameter " + pv.Name()
									okFlow = pv.Name() == strings.TrimPrefix(src, "range:param:")
								}
							}
						}
					case strings.HasPrefix(src, "param:"):
						if pv, isP := av.(*ssa.Parameter); isP {
							what = "parameter " + pv.Name()
							okFlow = pv.Name() == strings.TrimPrefix(src, "param:")
						}
					case strings.HasPrefix(src, "const:"):
						// the argument is this string constant (const:"" for the empty string)
						want, err := strconv.Unquote(strings.TrimPrefix(src, "const:"))
						if err != nil {
							want = strings.TrimPrefix(src, "const:")
						}
						if cv, isC := av.(*ssa.Const); isC && cv.Value != nil && cv.Value.Kind() == constant.String {
							what = "the constant " + cv.Value.ExactString()
							okFlow = constant.StringVal(cv.Value) == want
						}
						// const:nonzero — an integer constant other than 0 (an exit status)
						if cv, isC := av.(*ssa.Const); isC && cv.Value != nil && cv.Value.Kind() == constant.Int && want == "nonzero" {
							what = "the constant " + cv.Value.ExactString()
							okFlow = constant.Sign(cv.Value) != 0
						}
					case strings.HasPrefix(src, "field:"):
						fnm := fieldNameOf(av)
						what = "field " + fnm
						okFlow = fnm == strings.TrimPrefix(src, "field:")
					}
					if !okFlow && bad == "" {
						p := w.prog.Fset.Position(call.Pos())
						bad = fmt.Sprintf("argument %d of the call of %s at line %d is %s, the contract says it comes from %s", k, callee, p.Line, what, src)
					}
				}
			}
			switch {
			case found == 0:
				ex.Lines = append(ex.Lines, fmt.Sprintf("UNDECIDED: %s: no call of %s found in %s any more", name, callee, c.Func))
				ex.Discharged++
			case bad != "":
				path := writeTextReplay(opts, id, name, bad+"\n(abstract-mode data-flow obligation over go/ssa)", "", "", "bin/govc check "+id)
				ex.Lines = append(ex.Lines, fmt.Sprintf("VIOLATION property=%s replay=%s no-failing-input-found", id, path))
				ex.Lines = append(ex.Lines, "  failed obligation: "+name+": "+bad)
				ex.Violations++
			default:
				ex.Discharged++
			}
		}
	}
}

// guarded: `guarded <callee> unless-field <Field>` — every call of <callee> in
// the function sits behind a test of the boolean field: it is dominated by the
// FALSE successor of an `if x.<Field>`. (With --only-models nothing but type
// declarations may be produced: no validator collection, no imports.)
func (w *World) guarded(id string, opts *RunOpts, ex *Extra) {
	for _, c := range w.specs.Contracts {
		if !hasTag(c.Props, id) {
			continue
		}
		for _, cl := range c.Clauses {
			if cl.Kind != "guarded" {
				continue
			}
			f := strings.Fields(cl.Raw)
			if len(f) != 3 || (f[1] != "unless-field" && f[1] != "unless-equal-fields" && f[1] != "when-nonnil") {
				continue
			}
			callee, field := f[0], f[2]
			eqForm := f[1] == "unless-equal-fields"
			nonnilForm := f[1] == "when-nonnil" // guarded <callee> when-nonnil <param>: called exactly on the `param != nil` side
			name := fmt.Sprintf("%s/guarded:%s-unless-%s", c.Func, callee, field)
			if eqForm {
				name = fmt.Sprintf("%s/guarded:%s-unless-equal-%s", c.Func, callee, field)
			}
			if nonnilForm {
				name = fmt.Sprintf("%s/guarded:%s-when-%s-nonnil", c.Func, callee, field)
			}
			fn := w.findFunc(c)
			ex.Count++
			if fn == nil {
				ex.Lines = append(ex.Lines, "UNDECIDED: "+c.Func+" not found; "+name+" is not checked")
				ex.Discharged++
				continue
			}
			var safe []*ssa.BasicBlock // false successors of tests of the field
			for _, b := range fn.Blocks {
				ifi, ok := b.Instrs[len(b.Instrs)-1].(*ssa.If)
				if ok && !eqForm && !nonnilForm && fieldNameOf(ifi.Cond) == field {
					safe = append(safe, b.Succs[1])
				}
				if bo, isB := ifi0(ifi, ok); nonnilForm && isB {
					isParam := func(v ssa.Value) bool { p, ok := v.(*ssa.Parameter); return ok && p.Name() == field }
					isNil := func(v ssa.Value) bool { c, ok := v.(*ssa.Const); return ok && c.IsNil() }
					if (isParam(bo.X) && isNil(bo.Y)) || (isParam(bo.Y) && isNil(bo.X)) {
						switch bo.Op {
						case token.NEQ:
							safe = append(safe, b.Succs[0])
						case token.EQL:
							safe = append(safe, b.Succs[1])
						}
					}
				}
				// unless-equal-fields: the test compares the field of two values; the
				// callee is reached only on the "differ" side
				if bo, isB := ifi0(ifi, ok); eqForm && isB && fieldNameOf(bo.X) == field && fieldNameOf(bo.Y) == field {
					switch bo.Op {
					case token.EQL:
						safe = append(safe, b.Succs[1])
					case token.NEQ:
						safe = append(safe, b.Succs[0])
					}
				}
			}
			found, bad := 0, ""
			for _, b := range fn.Blocks {
				for _, ins := range b.Instrs {
					call, ok := ins.(*ssa.Call)
					if !ok || !calleeMatches(calleeName(call), callee) {
						continue
					}
					found++
					okG := false
					for _, sb := range safe {
						// the guarding EDGE must dominate: its target has no other way in
						if len(sb.Preds) == 1 && sb.Dominates(b) {
							okG = true
						}
					}
					if !okG && bad == "" {
						p := w.prog.Fset.Position(call.Pos())
						bad = fmt.Sprintf("the call of %s at line %d is reachable when %s is set", callee, p.Line, field)
						if eqForm {
							bad = fmt.Sprintf("the call of %s at line %d is not behind a comparison of the two %s fields", callee, p.Line, field)
						}
						if nonnilForm {
							bad = fmt.Sprintf("the call of %s at line %d is not on the `%s != nil` side of a test of %s", callee, p.Line, field, field)
						}
					}
				}
			}
			if os.Getenv("GOVC_DEBUG_GUARD") != "" {
				fmt.Fprintln(os.Stderr, "guarded", name, "found", found, "safe", len(safe), "bad", bad)
			}
			if found == 0 && nonnilForm {
				bad = fmt.Sprintf("%s does not call %s at all", c.Func, callee)
				found = 1
			}
			switch {
			case found == 0:
				ex.Lines = append(ex.Lines, fmt.Sprintf("UNDECIDED: %s: no call of %s found in %s any more", name, callee, c.Func))
				ex.Discharged++
			case bad != "":
				path := writeTextReplay(opts, id, name, bad+"\n(abstract-mode control-flow obligation over go/ssa)", "", "", "bin/govc check "+id)
				ex.Lines = append(ex.Lines, fmt.Sprintf("VIOLATION property=%s replay=%s no-failing-input-found", id, path))
				ex.Lines = append(ex.Lines, "  failed obligation: "+name+": "+bad)
				ex.Violations++
			default:
				ex.Discharged++
			}
		}
	}
}

func (w *World) callOrder(id string, opts *RunOpts, ex *Extra) {
	w.flowClauses(id, opts, ex)
	w.argFrom(id, opts, ex)
	w.guarded(id, opts, ex)
	w.fieldFrom(id, opts, ex)
	w.successPathCalls(id, opts, ex)
	w.afterLoop(id, opts, ex)
	w.alwaysCalls(id, opts, ex)
	w.keyedMaps(id, opts, ex)
	w.stateInventory(id, opts, ex)
	w.decoderPairs(id, opts, ex)
	w.equalityBy(id, opts, ex)
	w.failsOnlyBy(id, opts, ex)
	for _, c := range w.specs.Contracts {
		if !hasTag(c.Props, id) {
			continue
		}
		for _, cl := range c.Clauses {
			if cl.Kind != "calls-ordered" {
				continue
			}
			f := strings.Fields(cl.Raw)
			if len(f) != 3 || f[1] != "before" {
				continue
			}
			a, b := f[0], f[2]
			name := fmt.Sprintf("%s/calls-ordered:%s<%s", c.Func, a, b)
			fn := w.findFunc(c)
			ex.Count++
			if fn == nil {
				ex.Lines = append(ex.Lines, "UNDECIDED: "+c.Func+" not found; "+name+" is not checked")
				ex.Discharged++
				continue
			}
			// loop headers: blocks with a back edge (a predecessor they dominate)
			header := map[*ssa.BasicBlock]bool{}
			for _, blk := range fn.Blocks {
				for _, p := range blk.Preds {
					if blk.Dominates(p) {
						header[blk] = true
					}
				}
			}
			nA, nB := 0, 0
			bad := ""
			for _, blk := range fn.Blocks {
				for idx, ins := range blk.Instrs {
					if isEvent(ins, a) {
						nA++
					}
					if !isEvent(ins, b) {
						continue
					}
					nB++
					// headers of loops containing this B event
					stop := map[*ssa.BasicBlock]bool{}
					for h := range header {
						if h.Dominates(blk) {
							stop[h] = true
						}
					}
					seen := map[*ssa.BasicBlock]bool{}
					var walk func(x *ssa.BasicBlock, from int)
					walk = func(x *ssa.BasicBlock, from int) {
						for k := from; k < len(x.Instrs); k++ {
							if isEvent(x.Instrs[k], a) && bad == "" {
								p := w.prog.Fset.Position(x.Instrs[k].Pos())
								q := w.prog.Fset.Position(ins.Pos())
								bad = fmt.Sprintf("%s (line %d) can follow %s (line %d) within the same iteration", a, p.Line, b, q.Line)
							}
						}
						for _, s := range x.Succs {
							if stop[s] || seen[s] {
								continue
							}
							seen[s] = true
							walk(s, 0)
						}
					}
					walk(blk, idx+1)
				}
			}
			switch {
			case nA == 0 || nB == 0:
				// the events no longer exist under these names: undecided, not an alarm
				ex.Lines = append(ex.Lines, fmt.Sprintf("UNDECIDED: %s: no %s or no %s event found in %s any more", name, a, b, c.Func))
				ex.Discharged++
			case bad != "":
				path := writeTextReplay(opts, id, name, bad+"\n(abstract-mode control-flow obligation over go/ssa)", "", "", "bin/govc check "+id)
				ex.Lines = append(ex.Lines, fmt.Sprintf("VIOLATION property=%s replay=%s no-failing-input-found", id, path))
				ex.Lines = append(ex.Lines, "  failed obligation: "+name+": "+bad)
				ex.Violations++
			default:
				ex.Discharged++
				ex.Samples = append(ex.Samples, map[string]interface{}{"obligation": name, "kind": "calls-ordered", "events": fmt.Sprintf("%d x %s, %d x %s", nA, a, nB, b)})
			}
		}
	}
}

func ifi0(ifi *ssa.If, ok bool) (*ssa.BinOp, bool) {
	if !ok {
		return nil, false
	}
	bo, isB := ifi.Cond.(*ssa.BinOp)
	return bo, isB
}

// fieldFrom: `field-from <Struct>.<Field> <src> <src>…` — the values the function
// stores into that field of a local struct come from exactly the listed sources:
// `map:G` (a lookup in the map built from flag variable G by
// stringSliceToStringMap) or `global:G` (the package variable G itself). A
// per-schema setting must fall back to its default: a field with a map source
// and no global source silently stays empty for ids the map does not list.
func (w *World) fieldFrom(id string, opts *RunOpts, ex *Extra) {
	for _, c := range w.specs.Contracts {
		if !hasTag(c.Props, id) {
			continue
		}
		for _, cl := range c.Clauses {
			if cl.Kind != "field-from" {
				continue
			}
			f := strings.Fields(cl.Raw)
			if len(f) < 2 || !strings.Contains(f[0], ".") {
				continue
			}
			dot := strings.Index(f[0], ".")
			stName, field := f[0][:dot], f[0][dot+1:]
			want := map[string]bool{}
			for _, x := range f[1:] {
				want[x] = true
			}
			name := fmt.Sprintf("%s/field-from:%s", c.Func, f[0])
			fn := w.findFunc(c)
			ex.Count++
			if fn == nil {
				ex.Lines = append(ex.Lines, "UNDECIDED: "+c.Func+" not found; "+name+" is not checked")
				ex.Discharged++
				continue
			}
			got := map[string]bool{}
			for _, b := range fn.Blocks {
				for _, ins := range b.Instrs {
					st, ok := ins.(*ssa.Store)
					if !ok {
						continue
					}
					fa, ok := st.Addr.(*ssa.FieldAddr)
					if !ok {
						continue
					}
					pt, ok := fa.X.Type().Underlying().(*types.Pointer)
					if !ok {
						continue
					}
					named, ok := pt.Elem().(*types.Named)
					if !ok || named.Obj().Name() != stName {
						continue
					}
					sst := named.Underlying().(*types.Struct)
					if sst.Field(fa.Field).Name() != field {
						continue
					}
					got[valueSource(st.Val)] = true
				}
			}
			var bad []string
			for x := range want {
				if !got[x] {
					bad = append(bad, "no store from "+x)
				}
			}
			for x := range got {
				if !want[x] {
					bad = append(bad, "a store from "+x)
				}
			}
			sort.Strings(bad)
			unknownSrc := false
			for x := range got {
				if strings.HasPrefix(x, "other:") || x == "map:?" {
					unknownSrc = true
				}
			}
			switch {
			case len(got) == 0:
				ex.Lines = append(ex.Lines, fmt.Sprintf("UNDECIDED: %s: no store to %s found in %s any more", name, f[0], c.Func))
				ex.Discharged++
			case unknownSrc:
				// a value this analysis cannot trace (a helper's result, say): not a verdict
				ex.Lines = append(ex.Lines, fmt.Sprintf("UNDECIDED: %s: %s is set from a value whose origin is not traced ({%s})", name, f[0], strings.Join(sortedKeysOf(got), ", ")))
				ex.Discharged++
			case len(bad) > 0:
				msg := fmt.Sprintf("%s is set from {%s}, the contract says {%s}: %s", f[0], strings.Join(sortedKeysOf(got), ", "), strings.Join(sortedKeysOf(want), ", "), strings.Join(bad, "; "))
				path := writeTextReplay(opts, id, name, msg+"\n(abstract-mode data-flow obligation over go/ssa)", "", "", "bin/govc check "+id)
				ex.Lines = append(ex.Lines, fmt.Sprintf("VIOLATION property=%s replay=%s no-failing-input-found", id, path))
				ex.Lines = append(ex.Lines, "  failed obligation: "+name+": "+msg)
				ex.Violations++
			default:
				ex.Discharged++
			}
		}
	}
}

func sortedKeysOf(m map[string]bool) []string {
	var ks []string
	for k := range m {
		ks = append(ks, k)
	}
	sort.Strings(ks)
	return ks
}

// valueSource classifies where a stored value comes from (see fieldFrom).
func valueSource(v ssa.Value) string {
	globalOf := func(x ssa.Value) string {
		if u, ok := x.(*ssa.UnOp); ok && u.Op == token.MUL {
			if g, ok := u.X.(*ssa.Global); ok {
				return g.Name()
			}
		}
		return ""
	}
	if g := globalOf(v); g != "" {
		return "global:" + g
	}
	if ex, ok := v.(*ssa.Extract); ok {
		v = ex.Tuple
	}
	if lk, ok := v.(*ssa.Lookup); ok {
		m := lk.X
		if u, ok := m.(*ssa.UnOp); ok && u.Op == token.MUL {
			// a captured/escaped local: find the single store into it
			if al, ok := u.X.(*ssa.Alloc); ok {
				for _, r := range *al.Referrers() {
					if st, ok := r.(*ssa.Store); ok && st.Addr == al {
						m = st.Val
					}
				}
			}
		}
		if ex, ok := m.(*ssa.Extract); ok {
			if call, ok := ex.Tuple.(*ssa.Call); ok && len(call.Call.Args) >= 1 {
				if g := globalOf(call.Call.Args[0]); g != "" {
					return "map:" + g
				}
			}
		}
		return "map:?"
	}
	return "other:" + v.String()
}

// successPathCalls: `success-path-calls <callee> <n>` — the least number of calls of
// <callee> on a path from the entry to each `return …, nil` (a nil error as last
// result) is one of the listed counts; back edges are ignored. (Both spellings of a keyword are decoded on
// every successful load, not only when some test of the raw text says so.)
func (w *World) successPathCalls(id string, opts *RunOpts, ex *Extra) {
	for _, c := range w.specs.Contracts {
		if !hasTag(c.Props, id) {
			continue
		}
		for _, cl := range c.Clauses {
			if cl.Kind != "success-path-calls" {
				continue
			}
			f := strings.Fields(cl.Raw)
			if len(f) != 2 {
				continue
			}
			callee := f[0]
			// "2" or "1|3": the admissible minimal call counts, one per kind of
			// successful return (a boolean schema returns after one decode, an object
			// after three)
			allowed := map[int]bool{}
			atLeast := -1 // "3+": that many or more
			for _, x := range strings.Split(f[1], "|") {
				var v int
				fmt.Sscan(strings.TrimSuffix(x, "+"), &v)
				if strings.HasSuffix(x, "+") {
					atLeast = v
				} else {
					allowed[v] = true
				}
			}
			name := fmt.Sprintf("%s/success-path-calls:%s=%s", c.Func, callee, f[1])
			fn := w.findFunc(c)
			ex.Count++
			if fn == nil {
				ex.Lines = append(ex.Lines, "UNDECIDED: "+c.Func+" not found; "+name+" is not checked")
				ex.Discharged++
				continue
			}
			calls := map[*ssa.BasicBlock]int{}
			total := 0
			for _, b := range fn.Blocks {
				for _, ins := range b.Instrs {
					if call, ok := ins.(*ssa.Call); ok && calleeMatches(calleeName(call), callee) {
						calls[b]++
						total++
					}
				}
			}
			// minimum number of calls on a path from the entry to the END of each block
			const inf = 1 << 30
			best := map[*ssa.BasicBlock]int{}
			for _, b := range fn.Blocks {
				best[b] = inf
			}
			best[fn.Blocks[0]] = calls[fn.Blocks[0]]
			for changed, rounds := true, 0; changed && rounds < len(fn.Blocks)+2; rounds++ {
				changed = false
				for _, b := range fn.Blocks {
					if best[b] == inf {
						continue
					}
					for _, sc := range b.Succs {
						if v := best[b] + calls[sc]; v < best[sc] {
							best[sc] = v
							changed = true
						}
					}
				}
			}
			bad := ""
			succReturns := 0
			for _, b := range fn.Blocks {
				ret, ok := b.Instrs[len(b.Instrs)-1].(*ssa.Return)
				if !ok || len(ret.Results) == 0 || best[b] == inf {
					continue
				}
				last, isConst := ret.Results[len(ret.Results)-1].(*ssa.Const)
				if !isConst || !last.IsNil() {
					continue
				}
				succReturns++
				if !allowed[best[b]] && !(atLeast >= 0 && best[b] >= atLeast) && bad == "" {
					p := w.prog.Fset.Position(ret.Pos())
					bad = fmt.Sprintf("the successful return at line %d can be reached after %d call(s) of %s (the contract says %s)", p.Line, best[b], callee, f[1])
				}
			}
			switch {
			case total == 0 || succReturns == 0:
				ex.Lines = append(ex.Lines, fmt.Sprintf("UNDECIDED: %s: no call of %s / no `return nil` found in %s any more", name, callee, c.Func))
				ex.Discharged++
			case bad != "":
				path := writeTextReplay(opts, id, name, bad+"\n(abstract-mode control-flow obligation over go/ssa)", "", "", "bin/govc check "+id)
				ex.Lines = append(ex.Lines, fmt.Sprintf("VIOLATION property=%s replay=%s no-failing-input-found", id, path))
				ex.Lines = append(ex.Lines, "  failed obligation: "+name+": "+bad)
				ex.Violations++
			default:
				ex.Discharged++
			}
		}
	}
}

// afterLoop: `after-loop <callee> <event>` — every call of <callee> comes after
// the loop whose body holds <event>: the loop's header dominates the call and the
// call is outside the loop. (The properties of an object are visited, and their
// errors reported, before the object is handed to the anyOf/allOf builders.)
func (w *World) afterLoop(id string, opts *RunOpts, ex *Extra) {
	for _, c := range w.specs.Contracts {
		if !hasTag(c.Props, id) {
			continue
		}
		for _, cl := range c.Clauses {
			if cl.Kind != "after-loop" {
				continue
			}
			f := strings.Fields(cl.Raw)
			if len(f) != 2 {
				continue
			}
			callee, event := f[0], f[1]
			name := fmt.Sprintf("%s/after-loop:%s-after-%s", c.Func, callee, event)
			fn := w.findFunc(c)
			ex.Count++
			if fn == nil {
				ex.Lines = append(ex.Lines, "UNDECIDED: "+c.Func+" not found; "+name+" is not checked")
				ex.Discharged++
				continue
			}
			var hdr *ssa.BasicBlock
			var body map[*ssa.BasicBlock]bool
			for h, bd := range loopsOf(fn) {
				for b := range bd {
					for _, ins := range b.Instrs {
						if isEvent(ins, event) {
							hdr, body = h, bd
						}
					}
				}
			}
			found, bad := 0, ""
			for _, b := range fn.Blocks {
				for _, ins := range b.Instrs {
					call, ok := ins.(*ssa.Call)
					if !ok || !calleeMatches(calleeName(call), callee) {
						continue
					}
					found++
					if hdr != nil && (!hdr.Dominates(b) || body[b]) && bad == "" {
						p := w.prog.Fset.Position(call.Pos())
						bad = fmt.Sprintf("the call of %s at line %d can be reached without passing the loop that holds %s", callee, p.Line, event)
					}
				}
			}
			switch {
			case found == 0 || hdr == nil:
				ex.Lines = append(ex.Lines, fmt.Sprintf("UNDECIDED: %s: no call of %s or no loop with %s found in %s any more", name, callee, event, c.Func))
				ex.Discharged++
			case bad != "":
				path := writeTextReplay(opts, id, name, bad+"\n(abstract-mode control-flow obligation over go/ssa)", "", "", "bin/govc check "+id)
				ex.Lines = append(ex.Lines, fmt.Sprintf("VIOLATION property=%s replay=%s no-failing-input-found", id, path))
				ex.Lines = append(ex.Lines, "  failed obligation: "+name+": "+bad)
				ex.Violations++
			default:
				ex.Discharged++
			}
		}
	}
}

// alwaysCalls: `always-calls <callee>` — no path from the entry reaches a return
// without a call of <callee> (a call that does not return, like os.Exit, ends the
// path too). Used for the functions that make the tool fail loudly: the
// diagnostic is printed and the process exits on every path.
func (w *World) alwaysCalls(id string, opts *RunOpts, ex *Extra) {
	for _, c := range w.specs.Contracts {
		if !hasTag(c.Props, id) {
			continue
		}
		for _, cl := range c.Clauses {
			if cl.Kind != "always-calls" {
				continue
			}
			callee := strings.TrimSpace(cl.Raw)
			name := fmt.Sprintf("%s/always-calls:%s", c.Func, callee)
			fn := w.findFunc(c)
			ex.Count++
			if fn == nil {
				ex.Lines = append(ex.Lines, "UNDECIDED: "+c.Func+" not found; "+name+" is not checked")
				ex.Discharged++
				continue
			}
			has := func(b *ssa.BasicBlock) bool {
				for _, ins := range b.Instrs {
					if call, ok := ins.(*ssa.Call); ok && calleeMatches(calleeName(call), callee) {
						return true
					}
				}
				return false
			}
			total := 0
			for _, b := range fn.Blocks {
				if has(b) {
					total++
				}
			}
			// blocks reachable from the entry without passing a calling block
			seen := map[*ssa.BasicBlock]bool{}
			bad := ""
			var walk func(b *ssa.BasicBlock)
			walk = func(b *ssa.BasicBlock) {
				if seen[b] || has(b) {
					return
				}
				seen[b] = true
				if ret, ok := b.Instrs[len(b.Instrs)-1].(*ssa.Return); ok && bad == "" {
					p := w.prog.Fset.Position(ret.Pos())
					bad = fmt.Sprintf("the return at line %d can be reached without a call of %s", p.Line, callee)
				}
				for _, sc := range b.Succs {
					walk(sc)
				}
			}
			walk(fn.Blocks[0])
			switch {
			case total == 0:
				// the call no longer exists under this name anywhere in the function: with a
				// single-purpose function (abort, logf) that IS the violation
				bad = fmt.Sprintf("%s does not call %s at all", c.Func, callee)
				fallthrough
			case bad != "":
				path := writeTextReplay(opts, id, name, bad+"\n(abstract-mode control-flow obligation over go/ssa)", "", "", "bin/govc check "+id)
				ex.Lines = append(ex.Lines, fmt.Sprintf("VIOLATION property=%s replay=%s no-failing-input-found", id, path))
				ex.Lines = append(ex.Lines, "  failed obligation: "+name+": "+bad)
				ex.Violations++
			default:
				ex.Discharged++
			}
		}
	}
}

// calleeMatches: the clause's callee may list alternatives, `logf|Fprint|Println`:
// any of them counts as the event (a refactoring may print the diagnostic by
// another of the usual means).
func calleeMatches(name, pattern string) bool {
	for _, alt := range strings.Split(pattern, "|") {
		if alt != "" && strings.Contains(name, alt) {
			return true
		}
	}
	return false
}

// keyedMaps: `maps-keyed-by-field <Field> on-receiver` — every map in the
// function that is read or written with a key loaded from the field <Field> of
// some value is a DIRECT field of the function's receiver (g.m[...]), not a map
// reached through a further pointer (g.output.m, g.Generator.m, a global). The
// raw text of a "$ref" only has a meaning relative to its own document, so a
// table keyed by it belongs to the per-document generator.
func (w *World) keyedMaps(id string, opts *RunOpts, ex *Extra) {
	for _, c := range w.specs.Contracts {
		if !hasTag(c.Props, id) {
			continue
		}
		for _, cl := range c.Clauses {
			if cl.Kind != "maps-keyed-by-field" {
				continue
			}
			f := strings.Fields(cl.Raw)
			if len(f) != 2 || f[1] != "on-receiver" {
				continue
			}
			name := fmt.Sprintf("%s/maps-keyed-by-field:%s-on-receiver", c.Func, f[0])
			fn := w.findFunc(c)
			ex.Count++
			if fn == nil || len(fn.Params) == 0 {
				ex.Lines = append(ex.Lines, "UNDECIDED: "+c.Func+" not found; "+name+" is not checked")
				ex.Discharged++
				continue
			}
			recv := fn.Params[0]
			direct := func(m ssa.Value) (bool, string) {
				ld, ok := m.(*ssa.UnOp)
				if !ok {
					return false, m.String()
				}
				switch x := ld.X.(type) {
				case *ssa.FieldAddr:
					if x.X == recv {
						return true, ""
					}
					return false, "a field reached through " + x.X.String() + " (" + x.X.Type().String() + ")"
				case *ssa.Global:
					return false, "the package-level variable " + x.Name()
				}
				return false, ld.X.String()
			}
			bad := ""
			for _, b := range fn.Blocks {
				for _, ins := range b.Instrs {
					var m, key ssa.Value
					switch x := ins.(type) {
					case *ssa.Lookup:
						m, key = x.X, x.Index
					case *ssa.MapUpdate:
						m, key = x.Map, x.Key
					default:
						continue
					}
					if _, isMap := m.Type().Underlying().(*types.Map); !isMap || fieldNameOf(key) != f[0] {
						continue
					}
					if ok, how := direct(m); !ok && bad == "" {
						p := w.prog.Fset.Position(ins.Pos())
						bad = fmt.Sprintf("the map accessed with a key taken from field %s at line %d is %s, not a field of the receiver itself: a table keyed by the raw reference text is shared beyond the document that gives the text its meaning", f[0], p.Line, how)
					}
				}
			}
			if bad != "" {
				path := writeTextReplay(opts, id, name, bad+"\n(abstract-mode data-flow obligation over go/ssa)", "", "", "bin/govc check "+id)
				ex.Lines = append(ex.Lines, fmt.Sprintf("VIOLATION property=%s replay=%s no-failing-input-found", id, path))
				ex.Lines = append(ex.Lines, "  failed obligation: "+name+": "+bad)
				ex.Violations++
			} else {
				ex.Discharged++
			}
		}
	}
}

// stateInventory: `collections <Type>: f1 f2 ...` — the map- and slice-typed
// fields of the named struct type (the state that accumulates across schema
// documents and DoFile calls) are exactly the listed ones. The contracts of this
// package describe what each of them holds and how it is keyed; a further
// collection on the type is state that no contract speaks about (a memo, a
// registry), and the properties that quantify over several documents in one run
// (C10, C20, C03, C12) are no longer carried by the contracts. A listed field that
// has disappeared leaves the clause undecided.
func (w *World) stateInventory(id string, opts *RunOpts, ex *Extra) {
	for _, c := range w.specs.Contracts {
		if !hasTag(c.Props, id) {
			continue
		}
		for _, cl := range c.Clauses {
			if cl.Kind != "collections" {
				continue
			}
			i := strings.Index(cl.Raw, ":")
			if i < 0 {
				continue
			}
			tn := strings.TrimSpace(cl.Raw[:i])
			want := map[string]bool{}
			for _, f := range strings.Fields(cl.Raw[i+1:]) {
				want[f] = true
			}
			name := fmt.Sprintf("%s:%s/collections", c.Pkg, tn)
			ex.Count++
			var st *types.Struct
			for path, p := range w.ssaPkgs {
				if path == w.modPath+"/"+c.Pkg || (c.Pkg == "" && path == w.modPath) {
					if m, ok := p.Members[tn].(*ssa.Type); ok {
						st, _ = m.Type().Underlying().(*types.Struct)
					}
				}
			}
			if st == nil {
				ex.Lines = append(ex.Lines, "UNDECIDED: "+name+": struct type "+tn+" not found")
				ex.Discharged++
				continue
			}
			var extra []string
			have := map[string]bool{}
			for k := 0; k < st.NumFields(); k++ {
				f := st.Field(k)
				switch f.Type().Underlying().(type) {
				case *types.Map, *types.Slice:
					have[f.Name()] = true
					if !want[f.Name()] {
						extra = append(extra, f.Name()+" "+f.Type().String())
					}
				}
			}
			for f := range want {
				if !have[f] {
					ex.Lines = append(ex.Lines, fmt.Sprintf("UNDECIDED: %s: listed field %s is no longer a collection of %s", name, f, tn))
				}
			}
			if len(extra) > 0 {
				sort.Strings(extra)
				msg := fmt.Sprintf("%s has collection field(s) no contract describes: %s — state that accumulates across documents and calls (how is it keyed? when is it consulted?) is outside every contract that carries C10/C20/C03/C12; describe it in the contract file (and list it) or keep it out of the shared type", tn, strings.Join(extra, ", "))
				path := writeTextReplay(opts, id, name, msg+"\n(abstract-mode obligation over go/types)", "", "", "bin/govc check "+id)
				ex.Lines = append(ex.Lines, fmt.Sprintf("VIOLATION property=%s replay=%s no-failing-input-found", id, path))
				ex.Lines = append(ex.Lines, "  failed obligation: "+name+": "+msg)
				ex.Violations++
			} else {
				ex.Discharged++
			}
		}
	}
}

// decoderPairs: `decoders-come-in-pairs` — in the contract's package (the run-time
// support package that generated code imports), every named type that has its own
// UnmarshalJSON also has an UnmarshalYAML (either signature yaml.v3 accepts), and
// vice versa. A type with only one of them decodes by its own rules from one
// format and by the decoder's defaults from the other (C17). Decided on go/types.
func (w *World) decoderPairs(id string, opts *RunOpts, ex *Extra) {
	for _, c := range w.specs.Contracts {
		if !hasTag(c.Props, id) {
			continue
		}
		for _, cl := range c.Clauses {
			if cl.Kind != "decoders-come-in-pairs" {
				continue
			}
			var pkg *ssa.Package
			for path, p := range w.ssaPkgs {
				if path == w.modPath+"/"+c.Pkg {
					pkg = p
				}
			}
			if pkg == nil {
				ex.Lines = append(ex.Lines, "UNDECIDED: decoders-come-in-pairs: package "+c.Pkg+" not found")
				continue
			}
			var names []string
			for n, m := range pkg.Members {
				if _, ok := m.(*ssa.Type); ok {
					names = append(names, n)
				}
			}
			sort.Strings(names)
			for _, n := range names {
				t := pkg.Members[n].(*ssa.Type).Type()
				named, ok := t.(*types.Named)
				if !ok {
					continue
				}
				own := map[string]bool{}
				for k := 0; k < named.NumMethods(); k++ {
					own[named.Method(k).Name()] = true
				}
				if !own["UnmarshalJSON"] && !own["UnmarshalYAML"] {
					continue
				}
				name := fmt.Sprintf("%s:%s/decoders-come-in-pairs", c.Pkg, n)
				ex.Count++
				if own["UnmarshalJSON"] && own["UnmarshalYAML"] {
					ex.Discharged++
					continue
				}
				have, lack := "UnmarshalJSON", "UnmarshalYAML"
				if !own["UnmarshalJSON"] {
					have, lack = lack, have
				}
				msg := fmt.Sprintf("type %s of %s has its own %s but no %s: a value of this type decodes by the type's rules from one format and by the decoder's defaults (for the embedded or underlying type) from the other, so UnmarshalYAML and UnmarshalJSON of a generated struct with such a field disagree", n, c.Pkg, have, lack)
				if f := findingFor(opts, name); f != nil {
					ex.KnownSeen = append(ex.KnownSeen, fmt.Sprintf("KNOWN-FINDING: property=%s %s [%s; obligation %s fails]", id, f.Text, f.ID, name))
					ex.KnownIDs = append(ex.KnownIDs, f.ID)
					continue
				}
				path := writeTextReplay(opts, id, name, msg+"\n(obligation over go/types)", "", "", "bin/govc check "+id)
				ex.Lines = append(ex.Lines, fmt.Sprintf("VIOLATION property=%s replay=%s no-failing-input-found", id, path))
				ex.Lines = append(ex.Lines, "  failed obligation: "+name+": "+msg)
				ex.Violations++
			}
		}
	}
}

func findingFor(opts *RunOpts, obligation string) *Finding {
	for _, f := range opts.Findings {
		if f.Kind == "known" && f.Obligation == obligation {
			return f
		}
	}
	return nil
}

// equalityBy: `schema-equality-only-by <callee>` — in the function, every call of
// a module function that takes two values of the same pointer-to-struct type and
// returns a bool (a "same schema?" test) is <callee> itself or a function whose
// whole body returns the result of such a call: the decision to reuse a
// declaration for another schema node rests on <callee> (cmp.Equal with the
// options of cmputil.Opts, which has a contract of its own) and on nothing that is
// or-ed to it.
func (w *World) equalityBy(id string, opts *RunOpts, ex *Extra) {
	for _, c := range w.specs.Contracts {
		if !hasTag(c.Props, id) {
			continue
		}
		for _, cl := range c.Clauses {
			if cl.Kind != "schema-equality-only-by" {
				continue
			}
			callee := strings.TrimSpace(cl.Raw)
			name := fmt.Sprintf("%s/schema-equality-only-by:%s", c.Func, callee)
			fn := w.findFunc(c)
			ex.Count++
			if fn == nil {
				ex.Lines = append(ex.Lines, "UNDECIDED: "+c.Func+" not found; "+name+" is not checked")
				ex.Discharged++
				continue
			}
			var pure func(f *ssa.Function, depth int) bool
			pure = func(f *ssa.Function, depth int) bool {
				if calleeMatches(f.String(), callee) {
					return true
				}
				if depth > 3 || len(f.Blocks) != 1 {
					return false
				}
				ret, ok := f.Blocks[0].Instrs[len(f.Blocks[0].Instrs)-1].(*ssa.Return)
				if !ok || len(ret.Results) != 1 {
					return false
				}
				call, ok := ret.Results[0].(*ssa.Call)
				if !ok || call.Call.StaticCallee() == nil {
					return false
				}
				return pure(call.Call.StaticCallee(), depth+1)
			}
			isEqTest := func(f *ssa.Function) bool {
				if f.Pkg == nil || !strings.HasPrefix(f.Pkg.Pkg.Path(), w.modPath) {
					return false
				}
				sig := f.Signature
				if sig.Results().Len() != 1 {
					return false
				}
				if b, ok := sig.Results().At(0).Type().Underlying().(*types.Basic); !ok || b.Kind() != types.Bool {
					return false
				}
				n := 0
				var first types.Type
				for k := 0; k < sig.Params().Len(); k++ {
					pt, ok := sig.Params().At(k).Type().(*types.Pointer)
					if !ok {
						continue
					}
					if _, isSt := pt.Elem().Underlying().(*types.Struct); !isSt {
						continue
					}
					if first == nil {
						first = pt
						n = 1
					} else if types.Identical(first, pt) {
						n++
					}
				}
				return n >= 2
			}
			bad := ""
			for _, b := range fn.Blocks {
				for _, ins := range b.Instrs {
					call, ok := ins.(*ssa.Call)
					if !ok || call.Call.StaticCallee() == nil {
						continue
					}
					g := call.Call.StaticCallee()
					if isEqTest(g) && !pure(g, 0) && bad == "" {
						p := w.prog.Fset.Position(call.Pos())
						bad = fmt.Sprintf("the call of %s at line %d decides whether two schema nodes are the same, and it is not %s (nor a function that only returns its verdict): what else it accepts as equal makes two different schemas share one Go type", shortFn(g.String()), p.Line, callee)
					}
				}
			}
			if bad != "" {
				path := writeTextReplay(opts, id, name, bad+"\n(abstract-mode obligation over go/ssa)", "", "", "bin/govc check "+id)
				ex.Lines = append(ex.Lines, fmt.Sprintf("VIOLATION property=%s replay=%s no-failing-input-found", id, path))
				ex.Lines = append(ex.Lines, "  failed obligation: "+name+": "+bad)
				ex.Violations++
			} else {
				ex.Discharged++
			}
		}
	}
}

// failsOnlyBy: `fails-only-by <callee> <callee>...` — every non-nil error the
// function returns is the error of a call of one of the listed callees, as it is
// or wrapped by fmt.Errorf / errors.Join: the function rejects nothing on its own
// account. (UnmarshalYAML of a run-time type must reject exactly what its decoding
// steps reject; a further test of its own makes it disagree with UnmarshalJSON.)
func (w *World) failsOnlyBy(id string, opts *RunOpts, ex *Extra) {
	for _, c := range w.specs.Contracts {
		if !hasTag(c.Props, id) {
			continue
		}
		for _, cl := range c.Clauses {
			if cl.Kind != "fails-only-by" {
				continue
			}
			callees := strings.Fields(cl.Raw)
			name := fmt.Sprintf("%s/fails-only-by:%s", c.Func, strings.Join(callees, ","))
			fn := w.findFunc(c)
			ex.Count++
			if fn == nil {
				ex.Lines = append(ex.Lines, "UNDECIDED: "+c.Func+" not found; "+name+" is not checked")
				ex.Discharged++
				continue
			}
			listed := func(call *ssa.Call) bool {
				n := calleeName(call)
				if n == "" { // a call of a function value: named by the parameter or variable
					n = call.Call.Value.Name()
				}
				for _, want := range callees {
					if calleeMatches(n, want) || call.Call.Value.Name() == want {
						return true
					}
				}
				return false
			}
			var fromListed func(v ssa.Value, depth int) bool
			fromListed = func(v ssa.Value, depth int) bool {
				if depth > 6 {
					return false
				}
				switch x := v.(type) {
				case *ssa.Const:
					return x.Value == nil // nil error
				case *ssa.Extract:
					if call, ok := x.Tuple.(*ssa.Call); ok {
						return listed(call)
					}
				case *ssa.Call:
					if listed(x) {
						return true
					}
					n := calleeName(x)
					if n == "fmt.Errorf" || n == "errors.Join" {
						// wrapped: some argument carries a listed callee's error
						for _, a := range x.Call.Args {
							if sl, ok := a.(*ssa.Slice); ok {
								if al, ok := sl.X.(*ssa.Alloc); ok {
									for _, r := range *al.Referrers() {
										ia, ok := r.(*ssa.IndexAddr)
										if !ok {
											continue
										}
										for _, r2 := range *ia.Referrers() {
											if st, ok := r2.(*ssa.Store); ok && fromListed(st.Val, depth+1) {
												if mi, isMI := st.Val.(*ssa.MakeInterface); !isMI || !isNilConst(mi.X) {
													return true
												}
											}
										}
									}
								}
							}
						}
					}
				case *ssa.MakeInterface:
					return fromListed(x.X, depth+1)
				case *ssa.ChangeInterface:
					return fromListed(x.X, depth+1)
				case *ssa.Phi:
					for _, e := range x.Edges {
						if !fromListed(e, depth+1) {
							return false
						}
					}
					return true
				}
				return false
			}
			bad := ""
			for _, b := range fn.Blocks {
				ret, ok := b.Instrs[len(b.Instrs)-1].(*ssa.Return)
				if !ok || len(ret.Results) == 0 {
					continue
				}
				ev := ret.Results[len(ret.Results)-1]
				if ev.Type().String() != "error" {
					continue
				}
				if !fromListed(ev, 0) && bad == "" {
					p := w.prog.Fset.Position(ret.Pos())
					bad = fmt.Sprintf("the error returned at line %d (%s) is not the error of %s: the function rejects an input on its own account", p.Line, trunc(ev.String(), 80), strings.Join(callees, " / "))
				}
			}
			if bad != "" {
				path := writeTextReplay(opts, id, name, bad+"\n(abstract-mode data-flow obligation over go/ssa)", "", "", "bin/govc check "+id)
				ex.Lines = append(ex.Lines, fmt.Sprintf("VIOLATION property=%s replay=%s no-failing-input-found", id, path))
				ex.Lines = append(ex.Lines, "  failed obligation: "+name+": "+bad)
				ex.Violations++
			} else {
				ex.Discharged++
			}
		}
	}
}

func isNilConst(v ssa.Value) bool {
	c, ok := v.(*ssa.Const)
	return ok && c.Value == nil
}
