package main

// C16 — flag table and Config wiring (DESIGN §6 C16): constants and data flow
// only. `flag` clauses on main state, per command-line flag, the package
// variable it is bound to, its kind and its default; `wires` clauses on the Run
// closure state which variable each generator.Config field is taken from. The
// obligations are decided on the SSA of the real main.go (no solver).

import (
	"fmt"
	"go/constant"
	"go/types"
	"strings"

	"golang.org/x/tools/go/ssa"
)

type flagReg struct {
	name, global, kind, def string
}

func constString(v ssa.Value) (string, bool) {
	c, ok := v.(*ssa.Const)
	if !ok || c.Value == nil {
		return "", ok && c.Value == nil
	}
	switch c.Value.Kind() {
	case constant.String:
		return constant.StringVal(c.Value), true
	case constant.Bool:
		return fmt.Sprint(constant.BoolVal(c.Value)), true
	}
	return c.Value.ExactString(), true
}

// sliceConstElems reads a []string argument built from constants ("-" for nil).
func sliceConstElems(v ssa.Value) (string, bool) {
	if c, ok := v.(*ssa.Const); ok && c.Value == nil {
		return "-", true
	}
	sl, ok := v.(*ssa.Slice)
	if !ok {
		return "", false
	}
	al, ok := sl.X.(*ssa.Alloc)
	if !ok {
		return "", false
	}
	vals := map[int64]string{}
	for _, r := range *al.Referrers() {
		ia, ok := r.(*ssa.IndexAddr)
		if !ok {
			continue
		}
		idx, ok := ia.Index.(*ssa.Const)
		if !ok {
			return "", false
		}
		for _, r2 := range *ia.Referrers() {
			if st, ok := r2.(*ssa.Store); ok {
				s, ok := constString(st.Val)
				if !ok {
					return "", false
				}
				vals[idx.Int64()] = s
			}
		}
	}
	var out []string
	for i := int64(0); i < int64(len(vals)); i++ {
		out = append(out, vals[i])
	}
	return strings.Join(out, ","), true
}

func (w *World) flagRegistrations(fn *ssa.Function) []flagReg {
	var out []flagReg
	for _, b := range fn.Blocks {
		for _, ins := range b.Instrs {
			c, ok := ins.(*ssa.Call)
			if !ok {
				continue
			}
			cn := calleeName(c)
			if !strings.Contains(cn, "pflag.FlagSet).") || !strings.Contains(cn, "Var") {
				continue
			}
			meth := cn[strings.LastIndex(cn, ".")+1:]
			args := c.Call.Args
			if len(args) < 4 {
				continue
			}
			g, ok := args[1].(*ssa.Global)
			if !ok {
				continue
			}
			name, _ := constString(args[2])
			vi := 3
			if strings.HasSuffix(meth, "P") {
				vi = 4
			}
			r := flagReg{name: name, global: g.Name()}
			switch {
			case strings.HasPrefix(meth, "Bool"):
				r.kind = "bool"
				r.def, _ = constString(args[vi])
			case strings.HasPrefix(meth, "StringSlice"):
				r.kind = "strings"
				r.def, _ = sliceConstElems(args[vi])
			case strings.HasPrefix(meth, "String"):
				r.kind = "string"
				r.def, _ = constString(args[vi])
				r.def = fmt.Sprintf("%q", r.def)
			default:
				r.kind = meth
			}
			out = append(out, r)
		}
	}
	return out
}

func (w *World) flagTable(opts *RunOpts, ex *Extra) {
	fail := func(name, msg string) {
		path := writeTextReplay(opts, "C16", name, msg+"\n(decided on the SSA of main.go)", "", "", "bin/govc check C16")
		ex.Lines = append(ex.Lines, fmt.Sprintf("VIOLATION property=C16 replay=%s no-failing-input-found", path))
		ex.Lines = append(ex.Lines, "  failed obligation: "+name+": "+msg)
		ex.Violations++
	}
	var rows []interface{}
	for _, c := range w.specs.Contracts {
		fn := w.findFunc(c)
		var flagClauses, wireClauses []*Clause
		for _, cl := range c.Clauses {
			if cl.Kind == "flag" {
				flagClauses = append(flagClauses, cl)
			}
			if cl.Kind == "wires" {
				wireClauses = append(wireClauses, cl)
			}
		}
		if len(flagClauses) > 0 {
			if fn == nil {
				ex.Lines = append(ex.Lines, "UNDECIDED: "+c.Func+" not found; flag table not checked")
				continue
			}
			regs := w.flagRegistrations(fn)
			byName := map[string]flagReg{}
			for _, r := range regs {
				byName[r.name] = r
			}
			declared := map[string]bool{}
			for _, cl := range flagClauses {
				f := strings.Fields(cl.Raw)
				if len(f) < 4 {
					continue
				}
				name := "main/flag:" + f[0]
				declared[f[0]] = true
				ex.Count++
				r, ok := byName[f[0]]
				want := flagReg{name: f[0], global: f[1], kind: f[2], def: strings.Join(f[3:], " ")}
				rows = append(rows, map[string]interface{}{"flag": f[0], "bound_to": r.global, "kind": r.kind, "default": r.def})
				switch {
				case !ok:
					fail(name, "flag --"+f[0]+" is no longer registered")
				case r != want:
					fail(name, fmt.Sprintf("flag --%s is registered as (variable %s, %s, default %s) but documented as (variable %s, %s, default %s)", f[0], r.global, r.kind, r.def, want.global, want.kind, want.def))
				default:
					ex.Discharged++
				}
			}
			// sweep: no undeclared flag
			ex.Count++
			var extra []string
			for _, r := range regs {
				if !declared[r.name] {
					extra = append(extra, r.name)
				}
			}
			if len(extra) > 0 {
				fail("main/flag-sweep", "flags registered but not in the contract's flag table: "+strings.Join(extra, ", "))
			} else {
				ex.Discharged++
			}
		}
		if len(wireClauses) > 0 {
			if fn == nil {
				ex.Lines = append(ex.Lines, "UNDECIDED: "+c.Func+" not found; Config wiring not checked")
				continue
			}
			// stores into fields of a generator.Config value
			type wire struct{ field, from string }
			var wires []wire
			for _, b := range fn.Blocks {
				for _, ins := range b.Instrs {
					st, ok := ins.(*ssa.Store)
					if !ok {
						continue
					}
					fa, ok := st.Addr.(*ssa.FieldAddr)
					if !ok {
						continue
					}
					pt, ok := fa.X.Type().Underlying().(*types.Pointer)
					if !ok || !strings.HasSuffix(pt.Elem().String(), "generator.Config") {
						continue
					}
					field := pt.Elem().Underlying().(*types.Struct).Field(fa.Field).Name()
					from := "?"
					if ld, ok := st.Val.(*ssa.UnOp); ok {
						if g, ok := ld.X.(*ssa.Global); ok {
							from = g.Name()
						}
					}
					wires = append(wires, wire{field, from})
				}
			}
			for _, cl := range wireClauses {
				f := strings.Fields(cl.Raw)
				if len(f) != 2 {
					continue
				}
				name := "Run/wires:" + f[0]
				ex.Count++
				got := []string{}
				for _, wv := range wires {
					if wv.field == f[0] {
						got = append(got, wv.from)
					}
				}
				rows = append(rows, map[string]interface{}{"config_field": f[0], "taken_from": got})
				if len(got) == 1 && got[0] == f[1] {
					ex.Discharged++
				} else {
					fail(name, fmt.Sprintf("generator.Config.%s is set from %v, the contract says from the flag variable %s", f[0], got, f[1]))
				}
			}
		}
	}
	ex.Coverage["flag_table_and_wiring"] = rows
	if len(rows) > 0 {
		ex.Samples = append(ex.Samples, rows[:min(3, len(rows))]...)
	}
}
