#!/bin/sh
# Runs every registered quick (or given tier) check on the unchanged tree; exit 1 if any alarms or errors.
cd "$(dirname "$0")/.."
tier="${1:-quick}"
ids=$(python3 -c "import json;print(' '.join(c['property_id'] for c in json.load(open('MANIFEST.json'))['checks']))")
rc=0
for id in $ids; do
  s=$(date +%s)
  out=$(./verif.sh check $id $tier 2>&1); code=$?
  e=$(date +%s)
  line=$(echo "$out" | grep "^$id:" | tail -1)
  echo "[$code] $((e-s))s $line"
  echo "$out" | grep "^VIOLATION\|^ENGINE\|^UNDECIDED\|^note" | cut -c1-220
  [ $code -ne 0 ] && rc=1
done
exit $rc
