#!/usr/bin/env python3
"""usage: add_seed.py <name> <staging dir with patch.diff, meta.json, demo/> <property> '<demo cmd using $DEMO>' '<cleanup cmd>'"""
import os, shutil, json, sys
name, src, prop, cmd, clean = sys.argv[1:6]
HERE = os.path.dirname(os.path.dirname(os.path.abspath(__file__)))
d = os.path.join(HERE, 'seeded', name)
if os.path.exists(d): shutil.rmtree(d)
os.makedirs(d)
shutil.copy(os.path.join(src, 'patch.diff'), os.path.join(d, 'patch.diff'))
shutil.copytree(os.path.join(src, 'demo'), os.path.join(d, 'demo'))
m = json.load(open(os.path.join(src, 'meta.json')))
meta = {'property': prop, 'summary': m.get('summary'), 'needs_to_manifest': m.get('needs_to_manifest'), 'files_changed': m.get('files_changed'),
        'why_tests_pass': m.get('why_tests_pass'), 'origin': 'fresh sub-agent given only the property text and a scratch worktree (contract files hidden)',
        'demo_cmd': cmd, 'demo_cleanup': clean, 'confirmed': None, 'detected_by': None}
json.dump(meta, open(os.path.join(d, 'meta.json'), 'w'), indent=1)
open(os.path.join(d, 'run_demo.sh'), 'w').write(f'''#!/bin/sh
# usage: run_demo.sh <worktree-root>   (exit 0 = demonstration passes)
DEMO="$(cd "$(dirname "$0")" && pwd)/demo"
cd "$1" || exit 2
export GOPROXY=off GOSUMDB=off GOTOOLCHAIN=local
unset GOFLAGS
{cmd}
rc=$?
{clean}
exit $rc
''')
os.chmod(os.path.join(d, 'run_demo.sh'), 0o755)
print('added', name)
