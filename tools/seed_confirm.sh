#!/bin/sh
# Confirms a seeded change in a scratch worktree of /repo's HEAD:
#   1. pristine: demo passes   2. patch applied: builds, full suite passes, demo FAILS.
# usage: tools/seed_confirm.sh seeded/<name>
set -u
S="$(cd "$1" && pwd)"
WT=$(mktemp -d /tmp/seedwt.XXXXXX)
rmdir "$WT"
git -C /repo worktree add -q --detach "$WT" HEAD || exit 2
export GOPROXY=off GOSUMDB=off GOTOOLCHAIN=local; unset GOFLAGS
res="seed=$(basename "$S")"
"$S/run_demo.sh" "$WT" >$WT.demo1.log 2>&1 && res="$res pristine_demo=PASS" || res="$res pristine_demo=FAIL"
if git -C "$WT" apply "$S/patch.diff" 2>$WT.apply.log; then
  res="$res apply=ok"
  (cd "$WT" && go build ./... >$WT.build.log 2>&1) && res="$res build=ok" || res="$res build=FAIL"
  (cd "$WT" && go test -vet=off -count=1 ./... >$WT.t1.log 2>&1 && cd tests && go test -vet=off -count=1 ./... >$WT.t2.log 2>&1) && res="$res suite=PASS" || res="$res suite=FAIL"
  "$S/run_demo.sh" "$WT" >$WT.demo2.log 2>&1 && res="$res patched_demo=PASS" || res="$res patched_demo=FAIL"
else
  res="$res apply=FAIL"
fi
git -C /repo worktree remove --force "$WT"; rm -f "$WT".*.log
echo "$res"
