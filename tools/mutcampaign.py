#!/usr/bin/env python3
"""Mutation campaign: a measuring instrument for the checks, not a check.

phase A:  mutcampaign.py A <muts.jsonl> <out.jsonl> [workers]
    every mutant is applied to a private copy of /repo; survivors are those that
    build and pass the whole existing suite (both modules).
phase B:  mutcampaign.py B <phaseA.jsonl> <out.jsonl> [workers]
    for every survivor the checks mapped to the mutated function (plus the sweeps)
    are run against the private copy (govc --repo/--verif); a mutant is DETECTED
    when some check exits 1 with a VIOLATION line.
Scratch lives under /tmp/mut and is removed at the end of each phase."""
import json, os, shutil, subprocess, sys, threading, queue, time

ENV = dict(os.environ, GOPROXY='off', GOSUMDB='off', GOTOOLCHAIN='local')
ENV.pop('GOFLAGS', None)
SCR = '/tmp/mut'

def sh(cmd, cwd, timeout=600, env=ENV):
    try:
        p = subprocess.run(cmd, shell=True, cwd=cwd, env=env, capture_output=True, text=True, timeout=timeout)
        return p.returncode, p.stdout + p.stderr
    except subprocess.TimeoutExpired:
        return 124, 'timeout'

def mkcopy(k):
    d = f'{SCR}/w{k}'
    if os.path.exists(d): shutil.rmtree(d)
    os.makedirs(SCR, exist_ok=True)
    # the committed tree, not the working tree (which other tools may be patching)
    os.makedirs(d)
    subprocess.run(f'git -C /repo archive HEAD | tar x -C {d}', shell=True, check=True)
    return d

def apply(d, m):
    p = os.path.join(d, m['file'])
    src = open(p, 'rb').read()
    assert src[m['start']:m['end']].decode() == m['old'], (m['id'], 'source moved')
    open(p, 'wb').write(src[:m['start']] + m['new'].encode() + src[m['end']:])
    return src

def phaseA(muts, out, workers):
    q = queue.Queue()
    for m in muts: q.put(m)
    lock = threading.Lock()
    fo = open(out, 'a')
    def work(k):
        d = mkcopy(k)
        while True:
            try: m = q.get_nowait()
            except queue.Empty: break
            orig = apply(d, m)
            rc, o = sh('go build ./...', d, 300)
            if rc != 0:
                st = 'nobuild'
            else:
                rc1, o1 = sh('go test -vet=off -count=1 ./...', d, 600)
                rc2, o2 = (0, '') if rc1 != 0 else sh('go test -vet=off -count=1 ./...', d + '/tests', 900)
                st = 'survives' if rc1 == 0 and rc2 == 0 else 'killed'
            open(os.path.join(d, m['file']), 'wb').write(orig)
            m2 = dict(m, status=st)
            with lock:
                fo.write(json.dumps(m2) + '\n'); fo.flush()
        shutil.rmtree(d, ignore_errors=True)
    ts = [threading.Thread(target=work, args=(k,)) for k in range(workers)]
    for t in ts: t.start()
    for t in ts: t.join()

def contract_map():
    rc, o = sh('/verif/bin/govc list', '/verif', 300, dict(os.environ))
    mp = {}
    for line in o.splitlines():
        parts = line.split()
        if len(parts) < 3 or not parts[0].startswith('pkg/') and parts[0] not in ('.', 'internal/x/text', 'main'): 
            pass
        if 'props=[' not in line: continue
        pkg = parts[0]
        fn = line[len(pkg):line.index('props=[')].strip()
        fn = fn.split('@')[0].strip()
        props = line[line.index('props=[') + 7:line.index(']')].split()
        mp.setdefault(fn, set()).update(props)
    return mp

SWEEPS = ['C18', 'C12']
# checks whose contracts EXECUTE code of the file (callees of functions under contract), besides the
# contracts on the mutated function itself
FILE_PROPS = {
    'pkg/codegen/emitter.go': ['C01', 'C19', 'C06'], 'pkg/codegen/model.go': ['C01', 'C08', 'C20'], 'pkg/codegen/utils.go': ['C15', 'C03', 'C01'],
    'pkg/mathutils/utils.go': ['C05', 'C15'], 'internal/x/text/cases.go': ['C14', 'C01'], 'pkg/schemas/loaders.go': ['C10', 'C13', 'C20'],
    'pkg/schemas/model.go': ['C13', 'C11', 'C04', 'C20'], 'pkg/schemas/parse.go': ['C13'], 'pkg/schemas/types.go': ['C11', 'C03'],
    'pkg/generator/generate.go': ['C20', 'C16', 'C12'], 'pkg/generator/output.go': ['C14', 'C20', 'C02'], 'pkg/generator/utils.go': ['C12'],
    'pkg/cmputil/opts.go': ['C02', 'C13'], 'main.go': ['C16', 'C20'], 'pkg/generator/schema_generator.go': ['C10', 'C01', 'C03'],
}

def phaseB(rows, out, workers):
    mp = contract_map()
    allp = [f'C{i:02d}' for i in range(1, 21)]
    q = queue.Queue()
    for m in rows:
        if m['status'] == 'survives': q.put(m)
    lock = threading.Lock()
    fo = open(out, 'a')
    full = os.environ.get('MUT_FULL') == '1'
    def work(k):
        d = mkcopy(k)
        v = f'{SCR}/v{k}'
        if os.path.exists(v): shutil.rmtree(v)
        os.makedirs(v)
        for x in ('KNOWN_FINDINGS.txt', 'findings', 'ledger', 'e2e'):
            s = os.path.join('/verif', x)
            (shutil.copytree if os.path.isdir(s) else shutil.copy)(s, os.path.join(v, x))
        env = dict(os.environ, GOVC_WORKERS=str(max(2, 16 // workers)))
        while True:
            try: m = q.get_nowait()
            except queue.Empty: break
            orig = apply(d, m)
            fn = m['func']
            props = set(SWEEPS)
            for key, ps in mp.items():
                if key == fn or key.endswith(')' + '.' + fn.split('.')[-1]) and fn.startswith('(') and key.split(')')[0].lstrip('(*') == fn.split(')')[0].lstrip('(*'):
                    props |= ps
            if m['kind'] in ('template-op',) or 'Print' in m['old'] or m['file'].endswith('validator.go') or m['file'].endswith('formatter.go'):
                props |= {'C01', 'C19', 'C17'}
            for suffix, ps in FILE_PROPS.items():
                if m['file'].endswith(suffix): props |= set(ps)
            if full: props = set(allp)
            det, errs, ran = [], [], []
            for p in sorted(props):
                rc, o = sh(f'/verif/bin/govc check {p} --repo {d} --verif {v}', '/verif', 900, env)
                ran.append(p)
                if rc == 1 and 'VIOLATION property=' in o:
                    lines = [l.strip()[:260] for l in o.splitlines() if l.strip().startswith('failed obligation') or l.strip().startswith('bounded check')]
                    det.append({'prop': p, 'obligations': lines[:3]})
                    if not full: break
                elif rc != 0:
                    errs.append({'prop': p, 'rc': rc, 'tail': o[-300:]})
            open(os.path.join(d, m['file']), 'wb').write(orig)
            m2 = dict(m, ran=ran, detected=det, errors=errs)
            with lock:
                fo.write(json.dumps(m2) + '\n'); fo.flush()
        shutil.rmtree(d, ignore_errors=True); shutil.rmtree(v, ignore_errors=True)
    ts = [threading.Thread(target=work, args=(k,)) for k in range(workers)]
    for t in ts: t.start()
    for t in ts: t.join()

if __name__ == '__main__':
    ph, inp, out = sys.argv[1:4]
    workers = int(sys.argv[4]) if len(sys.argv) > 4 else 6
    rows = [json.loads(l) for l in open(inp)]
    done = set()
    if os.path.exists(out):
        done = {json.loads(l)['id'] for l in open(out)}
    rows = [r for r in rows if r['id'] not in done]
    (phaseA if ph == 'A' else phaseB)(rows, out, workers)
