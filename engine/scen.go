package main

// Scenario shapes for the generator package: abstract validators, type
// declarations, outputs. Used by `shape` clauses of the formatter / attach
// contracts.

import (
	"fmt"
	"go/types"
	"strings"

	"golang.org/x/tools/go/ssa"
)

var absLoaderType = types.NewNamed(types.NewTypeName(0, nil, "scenarioLoader", nil), types.NewStruct(nil, nil), nil)
var absValidatorType = types.NewNamed(types.NewTypeName(0, nil, "abstractValidator", nil), types.NewStruct(nil, nil), nil)

func (w *World) namedType(pkgSuffix, name string) types.Type {
	for path, p := range w.ssaPkgs {
		if strings.HasSuffix(path, pkgSuffix) {
			if m, ok := p.Members[name].(*ssa.Type); ok {
				return m.Type()
			}
		}
	}
	unsupported("type %s.%s not found", pkgSuffix, name)
	return nil
}

func mkStruct(t types.Type, fields map[string]Val) *Agg {
	a := zeroVal(t).(*Agg)
	for k, v := range fields {
		i := structFieldIndex(t, k)
		if i < 0 {
			unsupported("type %s has no field %s", t, k)
		}
		a = a.with(i, v)
	}
	return a
}

func parseCall(a string) (string, []string, bool) {
	op := strings.Index(a, "(")
	if op < 0 || !strings.HasSuffix(a, ")") {
		return "", nil, false
	}
	var args []string
	for _, x := range strings.Split(a[op+1:len(a)-1], ",") {
		x = strings.TrimSpace(x)
		if x != "" {
			args = append(args, x)
		}
	}
	return a[:op], args, true
}

func (e *Exec) scenarioShape(path string, t types.Type, a string) ([]altFn, bool) {
	w := e.w
	if strings.Contains(a, ":") && !strings.Contains(a, "(") {
		// codegen.Type alternatives: prim:string ptr:int arr2:int arr1:null null: named:...
		parts := strings.SplitN(a, ":", 2)
		return []altFn{func(s *State) (Val, string) { return w.codegenType(s, parts[0], parts[1]), path + "=" + a }}, true
	}
	name, args, ok := parseCall(a)
	if !ok {
		return nil, false
	}
	one := func(f func(s *State) Val, desc string) ([]altFn, bool) {
		return []altFn{func(s *State) (Val, string) { return f(s), path + "=" + desc }}, true
	}
	switch name {
	case "absvals": // absvals(n): n abstract validators
		n := 0
		fmt.Sscan(args[0], &n)
		return one(func(s *State) Val {
			var els []Val
			for i := 0; i < n; i++ {
				els = append(els, Iface{Dyn: absValidatorType, V: Opaque{Tag: fmt.Sprintf("v%d", i)}})
			}
			if n == 0 {
				return SliceV{}
			}
			r := s.alloc(&Agg{Elems: els})
			delete(s.Fresh, r.Cell)
			return SliceV{Arr: r, Len_: n, Cap: n}
		}, a)
	case "decl": // decl(Name, none|struct|addl|addl2): a codegen.TypeDecl value
		return one(func(s *State) Val {
			declT := w.namedType("pkg/codegen", "TypeDecl")
			fields := map[string]Val{"Name": lit(args[0])}
			if args[1] == "map" { // a bare map declaration (`type T map[string]string`), as for a map alternative of an anyOf
				mT := w.namedType("pkg/codegen", "MapType")
				pT := w.namedType("pkg/codegen", "PrimitiveType")
				prim := Iface{Dyn: pT, V: mkStruct(pT, map[string]Val{"Type": lit("string")})}
				fields["Type"] = Iface{Dyn: mT, V: mkStruct(mT, map[string]Val{"KeyType": prim, "ValueType": prim})}
				return mkStruct(declT, fields)
			}
			if args[1] != "none" {
				stT := w.namedType("pkg/codegen", "StructType")
				sfT := w.namedType("pkg/codegen", "StructField")
				var fs []Val
				switch args[1] {
				case "struct":
					fs = []Val{mkStruct(sfT, map[string]Val{"Name": lit("X")})}
				case "addl":
					fs = []Val{mkStruct(sfT, map[string]Val{"Name": lit("AdditionalProperties")})}
				case "addl2":
					fs = []Val{mkStruct(sfT, map[string]Val{"Name": lit("X")}), mkStruct(sfT, map[string]Val{"Name": lit("AdditionalProperties")})}
				default:
					unsupported("decl kind %s", args[1])
				}
				arr := s.alloc(&Agg{Elems: fs})
				delete(s.Fresh, arr.Cell)
				st := mkStruct(stT, map[string]Val{"Fields": SliceV{Arr: arr, Len_: len(fs), Cap: len(fs)}})
				r := s.alloc(st)
				delete(s.Fresh, r.Cell)
				fields["Type"] = Iface{Dyn: types.NewPointer(stT), V: r}
			}
			return mkStruct(declT, fields)
		}, a)
	case "sgen": // sgen(tag1,tag2,...): a *schemaGenerator with an empty output file and these struct tags
		p, ok := t.Underlying().(*types.Pointer)
		if !ok {
			unsupported("sgen() on non-pointer")
		}
		return one(func(s *State) Val {
			genT := w.namedType("pkg/generator", "Generator")
			cfgT := w.namedType("pkg/generator", "Config")
			outT := w.namedType("pkg/generator", "output")
			fileT := w.namedType("pkg/codegen", "File")
			var tags []Val
			jsonOnly, registered, ownPkg := false, false, false
			noRoot, typedRoot, rootProps, rootMapping := false, false, false, false
			for _, tg := range args {
				switch tg {
				case "@noroot": // the document has no root schema (definitions only)
					noRoot = true
					continue
				case "@typedroot": // the document's root is an object schema
					typedRoot = true
					continue
				case "@rootprops": // the document's root has a property (and, unless @typedroot, no type)
					rootProps = true
					continue
				case "@rootmapping": // a mapping names the root type of this document: "Mapped"
					rootMapping = true
					continue
				}
				if tg == "@jsononly" { // not a tag: the formatter list without --extra-imports
					jsonOnly = true
					continue
				}
				if tg == "@registered" { // not a tag: the generator knows its own document and output
					registered = true
					continue
				}
				if tg == "@ownpkg" { // not a tag: the generator's own output is in package "p1", not the default one
					ownPkg = true
					continue
				}
				tags = append(tags, atom("tag:"+tg))
			}
			var tagSlice Val = SliceV{}
			if len(tags) > 0 {
				ar := s.alloc(&Agg{Elems: tags})
				delete(s.Fresh, ar.Cell)
				tagSlice = SliceV{Arr: ar, Len_: len(tags), Cap: len(tags)}
			}
			strFn := types.NewSignatureType(nil, nil, nil, types.NewTuple(types.NewVar(0, nil, "", types.Typ[types.String])), nil, false)
			cfg := mkStruct(cfgT, map[string]Val{"Tags": tagSlice, "OnlyModels": mkVar("g.config.OnlyModels", SBool), "MinSizedInts": mkVar("g.config.MinSizedInts", SBool), "StructNameFromTitle": mkVar("g.config.StructNameFromTitle", SBool), "Warner": Opaque{Tag: "config.Warner", Typ: strFn}})
			fr := s.alloc(zeroVal(fileT))
			delete(s.Fresh, fr.Cell)
			s.CellTypes[fr.Cell] = fileT
			dn := s.alloc(&MapAgg{Tag: "declsByName"})
			delete(s.Fresh, dn.Cell)
			ds := s.alloc(&MapAgg{Tag: "declsBySchema"})
			delete(s.Fresh, ds.Cell)
			or := s.alloc(mkStruct(outT, map[string]Val{"file": fr, "warner": Opaque{Tag: "warner", Typ: strFn}, "declsByName": MapV{Cell: dn.Cell}, "declsBySchema": MapV{Cell: ds.Cell}}))
			delete(s.Fresh, or.Cell)
			s.CellTypes[or.Cell] = outT
			caserT := w.namedType("internal/x/text", "Caser")
			cr := s.alloc(zeroVal(caserT))
			delete(s.Fresh, cr.Cell)
			s.CellTypes[cr.Cell] = caserT
			// both formatters, as with --extra-imports
			var fmts []Val
			fnames := []string{"jsonFormatter", "yamlFormatter"}
			if jsonOnly {
				fnames = fnames[:1]
			}
			for _, fname := range fnames {
				ft := w.namedType("pkg/generator", fname)
				fr2 := s.alloc(zeroVal(ft))
				delete(s.Fresh, fr2.Cell)
				s.CellTypes[fr2.Cell] = ft
				fmts = append(fmts, Iface{Dyn: types.NewPointer(ft), V: fr2})
			}
			far := s.alloc(&Agg{Elems: fmts})
			delete(s.Fresh, far.Cell)
			gr := s.alloc(mkStruct(genT, map[string]Val{"config": cfg, "warner": Opaque{Tag: "warner", Typ: strFn}, "caser": cr, "formatters": SliceV{Arr: far, Len_: len(fmts), Cap: len(fmts)}}))
			delete(s.Fresh, gr.Cell)
			s.CellTypes[gr.Cell] = genT
			// New() makes every map of the Generator; a scenario generator has them too
			// (empty), whatever they are called
			if gst, ok := genT.Underlying().(*types.Struct); ok {
				ga0 := s.Heap[gr.Cell].(*Agg)
				for fi := 0; fi < gst.NumFields(); fi++ {
					if _, isMap := gst.Field(fi).Type().Underlying().(*types.Map); !isMap {
						continue
					}
					if mv, isMV := ga0.Elems[fi].(MapV); isMV && mv.Cell == 0 {
						mc := s.alloc(&MapAgg{Tag: gst.Field(fi).Name()})
						delete(s.Fresh, mc.Cell)
						ga0 = ga0.with(fi, MapV{Cell: mc.Cell})
					}
				}
				s.Heap[gr.Cell] = ga0
			}
			sgFields := map[string]Val{"Generator": gr, "output": or}
			if registered {
				// schema with an id, registered in the generator's outputs under that id
				schT := w.namedType("pkg/schemas", "Schema")
				dm := s.alloc(&MapAgg{Tag: "schema.Definitions"})
				delete(s.Fresh, dm.Cell)
				// the generator's own document has a title (so a name taken from the WRONG
				// document under --struct-name-from-title shows)
				ownRootT := w.namedType("pkg/schemas", "Type")
				rootFields := map[string]Val{"Title": lit("Own title")}
				if typedRoot {
					tar := s.alloc(&Agg{Elems: []Val{lit("object")}})
					delete(s.Fresh, tar.Cell)
					rootFields["Type"] = SliceV{Arr: tar, Len_: 1, Cap: 1}
				}
				if rootProps {
					pt := s.alloc(zeroVal(ownRootT))
					delete(s.Fresh, pt.Cell)
					s.CellTypes[pt.Cell] = ownRootT
					pm := s.alloc(&MapAgg{Tag: "root.Properties", Keys: []Val{lit("p")}, Vals: []Val{pt}})
					delete(s.Fresh, pm.Cell)
					rootFields["Properties"] = MapV{Cell: pm.Cell}
				}
				ownRoot := s.alloc(mkStruct(ownRootT, rootFields))
				delete(s.Fresh, ownRoot.Cell)
				s.CellTypes[ownRoot.Cell] = ownRootT
				schFields := map[string]Val{"ID": atom("schema.ID"), "Definitions": MapV{Cell: dm.Cell}, "ObjectAsType": ownRoot}
				if noRoot {
					delete(schFields, "ObjectAsType")
				}
				sr := s.alloc(mkStruct(schT, schFields))
				delete(s.Fresh, sr.Cell)
				s.CellTypes[sr.Cell] = schT
				om := s.alloc(&MapAgg{Tag: "outputs", Keys: []Val{atom("schema.ID")}, Vals: []Val{or}})
				delete(s.Fresh, om.Cell)
				ga := s.Heap[gr.Cell].(*Agg)
				if i := structFieldIndex(ga.Typ, "outputs"); i >= 0 {
					ga = ga.with(i, MapV{Cell: om.Cell})
				}
				if i := structFieldIndex(ga.Typ, "inScope"); i >= 0 {
					sc := s.alloc(&MapAgg{Tag: "inScope"})
					delete(s.Fresh, sc.Cell)
					ga = ga.with(i, MapV{Cell: sc.Cell})
				}
				s.Heap[gr.Cell] = ga
				sgFields["schema"] = sr
				sgFields["schemaFileName"] = atom("schemaFileName")
				// defaults for documents without a mapping; a scenario loader that knows
				// one other document: id "other.ID", a typed definition X, an untyped root
				ga = s.Heap[gr.Cell].(*Agg)
				if i := structFieldIndex(ga.Typ, "config"); i >= 0 {
					cfgA := ga.Elems[i].(*Agg)
					cfgVals := map[string]Val{"DefaultPackageName": lit("x/defpkg"), "DefaultOutputName": lit("default.go")}
					if rootMapping {
						mapT := w.namedType("pkg/generator", "SchemaMapping")
						mar := s.alloc(&Agg{Elems: []Val{mkStruct(mapT, map[string]Val{"SchemaID": atom("schema.ID"), "RootType": lit("Mapped")})}})
						delete(s.Fresh, mar.Cell)
						cfgVals["SchemaMappings"] = SliceV{Arr: mar, Len_: 1, Cap: 1}
					}
					for name, v := range cfgVals {
						if j := structFieldIndex(cfgA.Typ, name); j >= 0 {
							cfgA = cfgA.with(j, v)
						}
					}
					ga = ga.with(i, cfgA)
				}
				if i := structFieldIndex(ga.Typ, "loader"); i >= 0 {
					ga = ga.with(i, Iface{Dyn: absLoaderType, V: Opaque{Tag: "scenario-loader"}})
				}
				s.Heap[gr.Cell] = ga
				tyT := w.namedType("pkg/schemas", "Type")
				oar := s.alloc(&Agg{Elems: []Val{lit("object")}})
				delete(s.Fresh, oar.Cell)
				ox := s.alloc(mkStruct(tyT, map[string]Val{"Type": SliceV{Arr: oar, Len_: 1, Cap: 1}}))
				delete(s.Fresh, ox.Cell)
				s.CellTypes[ox.Cell] = tyT
				odm := s.alloc(&MapAgg{Tag: "other.Definitions", Keys: []Val{lit("X")}, Vals: []Val{ox}})
				delete(s.Fresh, odm.Cell)
				oroot := s.alloc(zeroVal(tyT))
				delete(s.Fresh, oroot.Cell)
				s.CellTypes[oroot.Cell] = tyT
				osr := s.alloc(mkStruct(schT, map[string]Val{"ID": atom("other.ID"), "Definitions": MapV{Cell: odm.Cell}, "ObjectAsType": oroot}))
				delete(s.Fresh, osr.Cell)
				s.CellTypes[osr.Cell] = schT
				s.Ghost["scenario:other-schema"] = osr
				// the generator's own output file: the default package, or its own
				pkgName := "x/defpkg"
				if ownPkg {
					pkgName = "p1"
				}
				fa := s.Heap[fr.Cell].(*Agg)
				if i := structFieldIndex(fa.Typ, "Package"); i >= 0 {
					pa := fa.Elems[i].(*Agg)
					if j := structFieldIndex(pa.Typ, "QualifiedName"); j >= 0 {
						pa = pa.with(j, lit(pkgName))
					}
					fa = fa.with(i, pa)
				}
				if i := structFieldIndex(fa.Typ, "FileName"); i >= 0 {
					fn := "default.go"
					if ownPkg {
						fn = "own.go"
					}
					fa = fa.with(i, lit(fn))
				}
				s.Heap[fr.Cell] = fa
			}
			sg := mkStruct(p.Elem(), sgFields)
			r := s.alloc(sg)
			delete(s.Fresh, r.Cell)
			s.CellTypes[r.Cell] = p.Elem()
			return r
		}, a)
	case "constdecls", "constdecl": // constdecls(A,B): a []codegen.Decl of *codegen.Constant{Name, Value: Name}; constdecl(A): one such Decl (a pointer of its own)
		return one(func(s *State) Val {
			ct := w.namedType("pkg/codegen", "Constant")
			mk := func(nm string) Val {
				r := s.alloc(mkStruct(ct, map[string]Val{"Name": lit(nm), "Value": Iface{Dyn: types.Typ[types.String], V: lit(nm)}}))
				delete(s.Fresh, r.Cell)
				s.CellTypes[r.Cell] = ct
				return Iface{Dyn: types.NewPointer(ct), V: r}
			}
			if name == "constdecl" {
				return mk(args[0])
			}
			var els []Val
			for _, a := range args {
				els = append(els, mk(a))
			}
			if len(els) == 0 {
				return SliceV{}
			}
			r := s.alloc(&Agg{Elems: els})
			delete(s.Fresh, r.Cell)
			return SliceV{Arr: r, Len_: len(els), Cap: len(els)}
		}, a)
	case "scenarioloader": // a schemas.Loader that fails or returns a new, empty document; its calls are recorded
		return one(func(s *State) Val {
			if _, ok := s.Ghost["scenario:other-schema"].(Ref); !ok {
				schT := w.namedType("pkg/schemas", "Schema")
				osr := s.alloc(zeroVal(schT))
				delete(s.Fresh, osr.Cell)
				s.CellTypes[osr.Cell] = schT
				s.Ghost["scenario:other-schema"] = osr
			}
			return Iface{Dyn: absLoaderType, V: Opaque{Tag: "scenario-loader"}}
		}, a)
	case "objdefault": // objdefault(key): a decoded JSON object {key: "od"} held in an interface (an object-level default)
		return one(func(s *State) Val {
			mt := types.NewMap(types.Typ[types.String], types.NewInterfaceType(nil, nil).Complete())
			mc := s.alloc(&MapAgg{Tag: path, Keys: []Val{atom(args[0])}, Vals: []Val{Iface{Dyn: types.Typ[types.String], V: lit("od")}}})
			delete(s.Fresh, mc.Cell)
			return Iface{Dyn: mt, V: MapV{Cell: mc.Cell}}
		}, a)
	case "emptymap": // a non-nil map without entries
		return one(func(s *State) Val {
			mc := s.alloc(&MapAgg{Tag: path})
			delete(s.Fresh, mc.Cell)
			return MapV{Cell: mc.Cell}
		}, a)
	case "imports": // imports(path:name;path:name): a []codegen.Import
		return one(func(s *State) Val {
			impT := w.namedType("pkg/codegen", "Import")
			var els []Val
			for _, spec := range strings.Split(strings.Join(args, ","), ";") {
				spec = strings.TrimSpace(spec)
				if spec == "" {
					continue
				}
				p := strings.SplitN(spec, ":", 2)
				els = append(els, mkStruct(impT, map[string]Val{"QualifiedName": lit(p[0]), "Name": lit(p[1])}))
			}
			if len(els) == 0 {
				return SliceV{}
			}
			r := s.alloc(&Agg{Elems: els})
			delete(s.Fresh, r.Cell)
			return SliceV{Arr: r, Len_: len(els), Cap: len(els)}
		}, a)
	case "strs": // strs(a,b): a slice of concrete strings
		return one(func(s *State) Val {
			var els []Val
			for _, x := range args {
				els = append(els, lit(x))
			}
			if len(els) == 0 {
				return SliceV{}
			}
			r := s.alloc(&Agg{Elems: els})
			delete(s.Fresh, r.Cell)
			return SliceV{Arr: r, Len_: len(els), Cap: len(els)}
		}, a)
	case "anyvals": // anyvals(n): a slice of n opaque interface values
		n := 0
		fmt.Sscan(args[0], &n)
		return one(func(s *State) Val {
			var els []Val
			for i := 0; i < n; i++ {
				els = append(els, Iface{Dyn: errDynType, V: Opaque{Tag: fmt.Sprintf("%s[%d]", path, i)}})
			}
			r := s.alloc(&Agg{Elems: els})
			delete(s.Fresh, r.Cell)
			return SliceV{Arr: r, Len_: n, Cap: n}
		}, a)
	case "types": // types(a:object;b:string,null): a slice of *schemas.Type with those type lists
		return one(func(s *State) Val {
			stT := w.namedType("pkg/schemas", "Type")
			var els []Val
			for _, spec := range strings.Split(strings.Join(args, ","), ";") {
				spec = strings.TrimSpace(spec)
				if spec == "" {
					continue
				}
				p := strings.SplitN(spec, ":", 2)
				// "a:object+p": the type also has a property p, a number with a minimum
				props := strings.Split(p[1], "+")
				p[1] = props[0]
				props = props[1:]
				var tl []Val
				for _, tn := range strings.Split(p[1], ",") {
					tl = append(tl, lit(strings.TrimSpace(tn)))
				}
				ar := s.alloc(&Agg{Elems: tl})
				delete(s.Fresh, ar.Cell)
				pmAgg := &MapAgg{Tag: fmt.Sprintf("%s[%d].Properties", path, len(els))}
				for _, pn := range props {
					pn = strings.TrimSpace(pn)
					mn := s.alloc(mkVar(fmt.Sprintf("%s[%d].%s.min", path, len(els), pn), SReal))
					delete(s.Fresh, mn.Cell)
					nar := s.alloc(&Agg{Elems: []Val{lit("number")}})
					delete(s.Fresh, nar.Cell)
					pt := s.alloc(mkStruct(stT, map[string]Val{"Type": SliceV{Arr: nar, Len_: 1, Cap: 1}, "Minimum": mn}))
					delete(s.Fresh, pt.Cell)
					s.CellTypes[pt.Cell] = stT
					pmAgg.Keys = append(pmAgg.Keys, lit(pn))
					pmAgg.Vals = append(pmAgg.Vals, pt)
				}
				pm := s.alloc(pmAgg)
				delete(s.Fresh, pm.Cell)
				tr := s.alloc(mkStruct(stT, map[string]Val{"Type": SliceV{Arr: ar, Len_: len(tl), Cap: len(tl)}, "Properties": MapV{Cell: pm.Cell}}))
				delete(s.Fresh, tr.Cell)
				s.CellTypes[tr.Cell] = stT
				els = append(els, tr)
			}
			if len(els) == 0 {
				return SliceV{}
			}
			r := s.alloc(&Agg{Elems: els})
			delete(s.Fresh, r.Cell)
			return SliceV{Arr: r, Len_: len(els), Cap: len(els)}
		}, a)
	case "rtype": // rtype(schemas.TypeList | *schemas.Type | string): a reflect.Type
		return one(func(s *State) Val {
			return Iface{Dyn: errDynType, V: Opaque{Tag: "rtype:" + rtypeName(w, strings.TrimSpace(args[0]))}}
		}, a)
	case "enumvals": // enumvals(string,float64,bool,nil): a []interface{} of decoded JSON values
		return one(func(s *State) Val {
			var els []Val
			for i, k := range args {
				nm := fmt.Sprintf("%s[%d]", path, i)
				switch k {
				case "string":
					els = append(els, Iface{Dyn: types.Typ[types.String], V: atom(nm)})
				case "float64":
					els = append(els, Iface{Dyn: types.Typ[types.Float64], V: mkVar(nm, SReal)})
				case "bool":
					els = append(els, Iface{Dyn: types.Typ[types.Bool], V: mkVar(nm, SBool)})
				case "nil":
					els = append(els, Iface{})
				case "object":
					els = append(els, Iface{Dyn: errDynType, V: Opaque{Tag: nm}})
				default:
					unsupported("enumvals kind %s", k)
				}
			}
			r := s.alloc(&Agg{Elems: els})
			delete(s.Fresh, r.Cell)
			return SliceV{Arr: r, Len_: len(els), Cap: len(els)}
		}, a)
	case "emptyslice": // a non-nil slice of length 0
		return one(func(s *State) Val {
			r := s.alloc(&Agg{})
			delete(s.Fresh, r.Cell)
			return SliceV{Arr: r, Len_: 0, Cap: 0}
		}, a)
	case "atoms": // atoms(n): a slice of n unknown strings
		n := 0
		fmt.Sscan(args[0], &n)
		return one(func(s *State) Val {
			var els []Val
			for i := 0; i < n; i++ {
				els = append(els, atom(fmt.Sprintf("%s[%d]", path, i)))
			}
			if n == 0 {
				return SliceV{}
			}
			r := s.alloc(&Agg{Elems: els})
			delete(s.Fresh, r.Cell)
			return SliceV{Arr: r, Len_: n, Cap: n}
		}, a)
	case "symmap": // an unknown map: lookups yield fresh symbols
		return one(func(s *State) Val {
			r := s.alloc(&MapAgg{Unknown: true, Tag: path})
			delete(s.Fresh, r.Cell)
			return MapV{Cell: r.Cell}
		}, a)
	case "strmap", "litmap": // strmap(k:true, ...) a concrete map keyed by parameter atoms; litmap: by literal strings
		mt := t.Underlying().(*types.Map)
		return one(func(s *State) Val {
			m := &MapAgg{Tag: path}
			for _, kv := range args {
				p := strings.SplitN(kv, ":", 2)
				var v Val
				switch {
				case p[1] == "true" || p[1] == "false":
					v = mkBool(p[1] == "true")
				default:
					var n int64
					fmt.Sscan(p[1], &n)
					v = mkInt(n)
				}
				_ = mt
				if name == "litmap" {
					m.Keys = append(m.Keys, lit(p[0]))
				} else {
					m.Keys = append(m.Keys, atom(p[0]))
				}
				m.Vals = append(m.Vals, v)
			}
			r := s.alloc(m)
			delete(s.Fresh, r.Cell)
			return MapV{Cell: r.Cell}
		}, a)
	case "propmap": // propmap(key): map {atom(key): &<value shaped under path "prop">}
		mt, ok := t.Underlying().(*types.Map)
		if !ok || e.curGen == nil {
			unsupported("propmap on %s", t)
		}
		pt := mt.Elem().Underlying().(*types.Pointer)
		var out []altFn
		for _, in := range e.curGen.alts("*prop", pt.Elem(), 1) {
			in := in
			out = append(out, func(s *State) (Val, string) {
				v, d := in(s)
				pr := s.alloc(v)
				delete(s.Fresh, pr.Cell)
				s.CellTypes[pr.Cell] = pt.Elem()
				m := &MapAgg{Tag: path, Keys: []Val{atom(args[0])}, Vals: []Val{pr}}
				r := s.alloc(m)
				delete(s.Fresh, r.Cell)
				return MapV{Cell: r.Cell}, d
			})
		}
		return out, true
	case "gen": // gen(id1=file:pkg;id2=file:pkg | map:id=pkg,out,root;...): a *Generator with these outputs / mappings
		p, ok := t.Underlying().(*types.Pointer)
		if !ok {
			unsupported("gen() on non-pointer")
		}
		return one(func(s *State) Val {
			outT := w.namedType("pkg/generator", "output")
			fileT := w.namedType("pkg/codegen", "File")
			pkgT := w.namedType("pkg/codegen", "Package")
			cfgT := w.namedType("pkg/generator", "Config")
			mapT := w.namedType("pkg/generator", "SchemaMapping")
			strFn := types.NewSignatureType(nil, nil, nil, types.NewTuple(types.NewVar(0, nil, "", types.Typ[types.String])), nil, false)
			outs := &MapAgg{Tag: "outputs"}
			var mappings []Val
			for _, spec := range strings.Split(strings.Join(args, ","), ";") {
				spec = strings.TrimSpace(spec)
				if spec == "" {
					continue
				}
				if strings.HasPrefix(spec, "map:") {
					kv := strings.SplitN(strings.TrimPrefix(spec, "map:"), "=", 2)
					f := strings.Split(kv[1], ",")
					for len(f) < 3 {
						f = append(f, "")
					}
					mappings = append(mappings, mkStruct(mapT, map[string]Val{"SchemaID": lit(kv[0]), "PackageName": lit(f[0]), "OutputName": lit(f[1]), "RootType": lit(f[2])}))
					continue
				}
				kv := strings.SplitN(spec, "=", 2)
				fp := strings.SplitN(kv[1], ":", 2)
				fr := s.alloc(mkStruct(fileT, map[string]Val{"FileName": lit(fp[0]), "Package": mkStruct(pkgT, map[string]Val{"QualifiedName": lit(fp[1])})}))
				delete(s.Fresh, fr.Cell)
				s.CellTypes[fr.Cell] = fileT
				or := s.alloc(mkStruct(outT, map[string]Val{"file": fr, "warner": Opaque{Tag: "warner", Typ: strFn}}))
				delete(s.Fresh, or.Cell)
				s.CellTypes[or.Cell] = outT
				outs.Keys = append(outs.Keys, lit(kv[0]))
				outs.Vals = append(outs.Vals, or)
			}
			mr := s.alloc(outs)
			delete(s.Fresh, mr.Cell)
			var ms Val = SliceV{}
			if len(mappings) > 0 {
				ar := s.alloc(&Agg{Elems: mappings})
				delete(s.Fresh, ar.Cell)
				ms = SliceV{Arr: ar, Len_: len(mappings), Cap: len(mappings)}
			}
			cfg := mkStruct(cfgT, map[string]Val{"SchemaMappings": ms, "DefaultOutputName": lit("default.go"), "DefaultPackageName": lit("defpkg"), "Warner": Opaque{Tag: "config.Warner", Typ: strFn},
				"StructNameFromTitle": mkVar("g.config.StructNameFromTitle", SBool)})
			caserT := w.namedType("internal/x/text", "Caser")
			cr := s.alloc(zeroVal(caserT))
			delete(s.Fresh, cr.Cell)
			s.CellTypes[cr.Cell] = caserT
			gr := s.alloc(mkStruct(p.Elem(), map[string]Val{"config": cfg, "warner": Opaque{Tag: "warner", Typ: strFn}, "outputs": MapV{Cell: mr.Cell}, "caser": cr}))
			delete(s.Fresh, gr.Cell)
			s.CellTypes[gr.Cell] = p.Elem()
			return gr
		}, a)
	case "decls": // decls(a, b, ...): *output whose declsByName holds finished declarations of these names
		p, ok := t.Underlying().(*types.Pointer)
		if !ok {
			unsupported("decls() on non-pointer")
		}
		return one(func(s *State) Val {
			declT := w.namedType("pkg/codegen", "TypeDecl")
			primT := w.namedType("pkg/codegen", "PrimitiveType")
			m := &MapAgg{}
			for _, nm := range args {
				placeholder := strings.HasSuffix(nm, "?")
				nm = strings.TrimSuffix(nm, "?")
				fields := map[string]Val{"Name": lit(nm)}
				if !placeholder {
					fields["Type"] = Iface{Dyn: primT, V: mkStruct(primT, map[string]Val{"Type": lit("string")})}
				}
				stT := w.namedType("pkg/schemas", "Type")
				sr := s.alloc(zeroVal(stT))
				delete(s.Fresh, sr.Cell)
				s.CellTypes[sr.Cell] = stT
				fields["SchemaType"] = sr
				dr := s.alloc(mkStruct(declT, fields))
				delete(s.Fresh, dr.Cell)
				m.Keys = append(m.Keys, lit(nm))
				m.Vals = append(m.Vals, dr)
			}
			mr := s.alloc(m)
			delete(s.Fresh, mr.Cell)
			fileT := w.namedType("pkg/codegen", "File")
			fr := s.alloc(zeroVal(fileT))
			delete(s.Fresh, fr.Cell)
			s.CellTypes[fr.Cell] = fileT
			out := mkStruct(p.Elem(), map[string]Val{"file": fr, "declsByName": MapV{Cell: mr.Cell}, "warner": Opaque{Tag: "warner", Typ: types.NewSignatureType(nil, nil, nil, types.NewTuple(types.NewVar(0, nil, "", types.Typ[types.String])), nil, false)}})
			r := s.alloc(out)
			delete(s.Fresh, r.Cell)
			s.CellTypes[r.Cell] = p.Elem()
			return r
		}, a)
	}
	return nil, false
}

// abstractInvoke gives abstract validators their meaning: desc() forks over
// the three kinds the formatters distinguish; generate() emits a marker
// statement that stage 2 treats as an opaque fragment.
func (e *Exec) abstractInvoke(s *State, c *ssa.Call, recv Iface, args []Val) ([]Out, bool) {
	if recv.Dyn == absLoaderType {
		// the scenario loader: Load fails, or returns the scenario's other document
		// (whatever the arguments; they are recorded for call_arg)
		if c.Call.Method.Name() != "Load" {
			return nil, false
		}
		s.Ghost["callarg:Loader.Load"] = Tuple(append([]Val{recv}, args...))
		prevLoads, _ := s.Ghost["callargs:Loader.Load"].(Tuple)
		s.Ghost["callargs:Loader.Load"] = append(append(Tuple{}, prevLoads...), Tuple(append([]Val{recv}, args...)))
		other, _ := s.Ghost["scenario:other-schema"].(Ref)
		s2 := s.clone()
		s.Ghost["callret:Loader.Load"] = Tuple{other, Iface{}}
		s2.Ghost["callret:Loader.Load"] = Tuple{Ref{}, mkErr("from Loader.Load")}
		return []Out{{St: s, Rets: []Val{other, Iface{}}}, {St: s2, Rets: []Val{Ref{}, mkErr("from Loader.Load")}}}, true
	}
	if recv.Dyn != absValidatorType {
		return nil, false
	}
	tag := recv.V.(Opaque).Tag
	switch c.Call.Method.Name() {
	case "desc":
		rt := c.Call.Method.Type().(*types.Signature).Results().At(0).Type().(*types.Pointer).Elem()
		kinds := []string{"B", "R", "P"}
		if k, ok := s.Ghost["vkind:"+tag].(Text); ok {
			ks, _ := k.concrete()
			kinds = []string{ks}
		}
		var outs []Out
		for _, k := range kinds {
			st := s
			if len(kinds) > 1 {
				st = s.clone()
			}
			st.Ghost["vkind:"+tag] = lit(k)
			d := mkStruct(rt, map[string]Val{
				"hasError":            mkVar("hasError!"+tag, SBool),
				"beforeJSONUnmarshal": mkBool(k == "B"),
				"requiresRawAfter":    mkBool(k == "R"),
			})
			r := st.alloc(d)
			outs = append(outs, Out{St: st, Rets: []Val{r}})
		}
		return outs, true
	case "generate":
		out, ok := args[0].(Ref)
		if !ok || out.isNil() {
			unsupported("abstract validator generate: emitter expected")
		}
		kind := "P"
		if k, ok := s.Ghost["vkind:"+tag].(Text); ok {
			kind, _ = k.concrete()
		}
		em := s.load(out).(*Agg)
		sbIdx := structFieldIndex(em.Typ, "sb")
		marker := fmt.Sprintf("FRAG%s_%s(", kind, strings.TrimPrefix(tag, "v"))
		switch kind {
		case "B":
			marker += "raw"
		case "R":
			marker += "raw, plain"
		default:
			marker += "plain"
		}
		e.sbAppend(s, out.sub(sbIdx), lit(marker+")\n"))
		if f, ok := args[1].(Text); ok {
			prev, _ := s.Ghost["vformat:"+tag].(Text)
			s.Ghost["vformat:"+tag] = prev.concat(f)
		}
		return []Out{{St: s}}, true
	}
	unsupported("abstract validator method %s", c.Call.Method.Name())
	return nil, true
}

// codegenType builds a codegen.Type value: kind in {prim, ptr, arrN, null, named}.
func (w *World) codegenType(s *State, kind, arg string) Val {
	primT := w.namedType("pkg/codegen", "PrimitiveType")
	prim := func(name string) Val {
		return Iface{Dyn: primT, V: mkStruct(primT, map[string]Val{"Type": lit(name)})}
	}
	elem := func(arg string) Val {
		if arg == "null" {
			nt := w.namedType("pkg/codegen", "NullType")
			return Iface{Dyn: nt, V: zeroVal(nt)}
		}
		return prim(arg)
	}
	allocIn := func(v Val, t types.Type) Ref {
		r := s.alloc(v)
		delete(s.Fresh, r.Cell)
		s.CellTypes[r.Cell] = t
		return r
	}
	switch {
	case kind == "prim":
		return prim(arg)
	case kind == "null":
		return elem("null")
	case kind == "ptr":
		pt := w.namedType("pkg/codegen", "PointerType")
		return Iface{Dyn: types.NewPointer(pt), V: allocIn(mkStruct(pt, map[string]Val{"Type": elem(arg)}), pt)}
	case strings.HasPrefix(kind, "arr"):
		n := 0
		fmt.Sscanf(kind, "arr%d", &n)
		at := w.namedType("pkg/codegen", "ArrayType")
		cur := elem(arg)
		for i := 0; i < n; i++ {
			cur = Iface{Dyn: types.NewPointer(at), V: allocIn(mkStruct(at, map[string]Val{"Type": cur}), at)}
		}
		return cur
	case kind == "named":
		nt := w.namedType("pkg/codegen", "NamedType")
		dt := w.namedType("pkg/codegen", "TypeDecl")
		d := allocIn(mkStruct(dt, map[string]Val{"Name": lit(arg)}), dt)
		return Iface{Dyn: types.NewPointer(nt), V: allocIn(mkStruct(nt, map[string]Val{"Decl": d}), nt)}
	}
	if kind == "struct" {
		// struct:plain | struct:addl | struct:addl2 — a *codegen.StructType whose fields
		// are an ordinary field X and/or the additional-properties map field
		stT := w.namedType("pkg/codegen", "StructType")
		sfT := w.namedType("pkg/codegen", "StructField")
		mpT := w.namedType("pkg/codegen", "MapType")
		eiT := w.namedType("pkg/codegen", "EmptyInterfaceType")
		scT := w.namedType("pkg/schemas", "Type")
		plain := mkStruct(sfT, map[string]Val{"Name": lit("X"), "JSONName": lit("x"), "Type": prim("string"), "SchemaType": allocIn(zeroVal(scT), scT)})
		addl := mkStruct(sfT, map[string]Val{"Name": lit("AdditionalProperties"), "JSONName": lit("-"),
			"Type": Iface{Dyn: types.NewPointer(mpT), V: allocIn(mkStruct(mpT, map[string]Val{"KeyType": prim("string"), "ValueType": Iface{Dyn: eiT, V: zeroVal(eiT)}}), mpT)}})
		var fs []Val
		switch arg {
		case "deffield":
			// one string field with a default AND a length constraint, one without default
			mk := func(name, json string, def bool) Val {
				sc := allocIn(mkStruct(scT, map[string]Val{"MinLength": mkInt(2)}), scT)
				f := map[string]Val{"Name": lit(name), "JSONName": lit(json), "Type": prim("string"), "SchemaType": sc}
				if def {
					f["DefaultValue"] = Iface{Dyn: types.Typ[types.String], V: lit("dflt")}
				}
				return mkStruct(sfT, f)
			}
			fs = []Val{mk("D", "d", true), mk("N", "n", false)}
		case "plain":
			fs = []Val{plain}
		case "addl":
			fs = []Val{addl}
		case "addl2":
			fs = []Val{plain, addl}
		default:
			unsupported("struct kind %s", arg)
		}
		arr := s.alloc(&Agg{Elems: fs})
		delete(s.Fresh, arr.Cell)
		stFields := map[string]Val{"Fields": SliceV{Arr: arr, Len_: len(fs), Cap: len(fs)}}
		if arg != "addl" && arg != "deffield" {
			rq := s.alloc(&Agg{Elems: []Val{lit("x")}})
			delete(s.Fresh, rq.Cell)
			stFields["RequiredJSONFields"] = SliceV{Arr: rq, Len_: 1, Cap: 1}
		}
		return Iface{Dyn: types.NewPointer(stT), V: allocIn(mkStruct(stT, stFields), stT)}
	}
	unsupported("codegen type alternative %s:%s", kind, arg)
	return nil
}

// rtypeName resolves the short spelling used in contracts (schemas.TypeList,
// *schemas.Type, string) to the type string reflect.TypeOf's model produces.
func rtypeName(w *World, short string) string {
	ptr := strings.HasPrefix(short, "*")
	short = strings.TrimPrefix(short, "*")
	var t types.Type
	if i := strings.Index(short, "."); i >= 0 {
		t = w.namedType("pkg/"+short[:i], short[i+1:])
	} else {
		for _, b := range types.Typ {
			if b.Name() == short {
				t = b
			}
		}
	}
	if t == nil {
		unsupported("rtype: unknown type %s", short)
	}
	if ptr {
		t = types.NewPointer(t)
	}
	return types.TypeString(t, nil)
}
