package main

// Value domain of the symbolic executor: concrete heap shapes, symbolic scalars.

import (
	"fmt"
	"go/types"
	"sort"
	"strings"

	"golang.org/x/tools/go/ssa"
)

type Val interface{}

// Ref is a pointer: a heap cell plus a path into nested aggregates. Cell 0 is nil.
type Ref struct {
	Cell int
	Path string // "/i/j" encoded path so Ref is comparable
}

func (r Ref) isNil() bool { return r.Cell == 0 }

func (r Ref) sub(i int) Ref { return Ref{r.Cell, r.Path + "/" + fmt.Sprint(i)} }

func (r Ref) path() []int {
	if r.Path == "" {
		return nil
	}
	var out []int
	for _, p := range strings.Split(r.Path[1:], "/") {
		var n int
		fmt.Sscan(p, &n)
		out = append(out, n)
	}
	return out
}

// Agg is an immutable struct or array value.
type Agg struct {
	Elems []Val
	Typ   types.Type // may be nil for anonymous backing arrays
}

func (a *Agg) with(i int, v Val) *Agg {
	n := &Agg{Elems: append([]Val{}, a.Elems...), Typ: a.Typ}
	n.Elems[i] = v
	return n
}

// Iface is an interface value with a concrete dynamic type (nil when Dyn == nil).
type Iface struct {
	Dyn types.Type
	V   Val
}

type Tuple []Val

// SliceV is a slice with concrete bounds over a backing array cell.
type SliceV struct {
	Arr      Ref // points at an *Agg (array); nil Ref for the nil slice
	Lo, Len_ int
	Cap      int
}

// MapV is a reference to a map cell holding *MapAgg.
type MapV struct{ Cell int }

type MapAgg struct {
	Keys []Val
	Vals []Val
	// Unknown: the map may hold further, unspecified entries (symbolic maps);
	// lookups of keys not listed then yield fresh symbols.
	Unknown bool
	Tag     string
	Oks     []*T  // per entry: the condition under which the key is present (nil slice: all present)
	Writes  []Val // keys written by MapUpdate, in order
}

type Closure struct {
	Fn    *ssa.Function
	Binds []Val
}

// Opaque is a value the executor carries but does not interpret.
type Opaque struct {
	Tag string
	Typ types.Type
}

type Frame struct {
	Fn  *ssa.Function
	Env map[ssa.Value]Val
}

// Lemma is a universally quantified fact assumed from a callee's contract;
// instantiated at obligation time with the skolems of the goal.
type Lemma struct {
	Var    string
	Sort   Sort
	Body   *Node
	Env    map[string]Val
	Pre    *State // state at call time (for old())
	Post   *State // state after the call (heap after havoc); nil = state at use
	Origin string
}

type State struct {
	Frames    []*Frame
	Heap      map[int]Val
	Next      *int // shared cell counter (monotone across clones)
	PC        []*T
	Lemmas    []*Lemma
	Fresh     map[int]bool // cells allocated during execution (not part of the input footprint)
	Trace     []string     // notes: contract applications, havocs
	Ghost     map[string]Val
	Depth     int
	Steps     *int
	Visits    map[*ssa.BasicBlock]int
	CellTypes map[int]types.Type // Go type of input cells (shared)
}

func newState() *State {
	n := 0
	st := 0
	return &State{Heap: map[int]Val{}, Next: &n, Fresh: map[int]bool{}, Ghost: map[string]Val{}, Steps: &st, Visits: map[*ssa.BasicBlock]int{}, CellTypes: map[int]types.Type{}}
}

func (s *State) clone() *State {
	n := &State{Heap: make(map[int]Val, len(s.Heap)), Next: s.Next, Fresh: make(map[int]bool, len(s.Fresh)),
		Ghost: make(map[string]Val, len(s.Ghost)), Depth: s.Depth, Steps: s.Steps, Visits: make(map[*ssa.BasicBlock]int, len(s.Visits)), CellTypes: s.CellTypes}
	for k, v := range s.Heap {
		n.Heap[k] = v
	}
	for k, v := range s.Fresh {
		n.Fresh[k] = v
	}
	for k, v := range s.Ghost {
		n.Ghost[k] = v
	}
	for k, v := range s.Visits {
		n.Visits[k] = v
	}
	n.PC = append([]*T{}, s.PC...)
	n.Lemmas = append([]*Lemma{}, s.Lemmas...)
	n.Trace = append([]string{}, s.Trace...)
	n.Frames = make([]*Frame, len(s.Frames))
	for i, f := range s.Frames {
		nf := &Frame{Fn: f.Fn, Env: make(map[ssa.Value]Val, len(f.Env))}
		for k, v := range f.Env {
			nf.Env[k] = v
		}
		n.Frames[i] = nf
	}
	return n
}

// snapshot is a cheap copy of the heap only (for old()).
func (s *State) snapshot() *State {
	n := &State{Heap: make(map[int]Val, len(s.Heap)), Next: s.Next, Fresh: s.Fresh, Ghost: s.Ghost, Steps: s.Steps, CellTypes: s.CellTypes}
	for k, v := range s.Heap {
		n.Heap[k] = v
	}
	n.PC = s.PC
	return n
}

func (s *State) top() *Frame { return s.Frames[len(s.Frames)-1] }

func (s *State) alloc(v Val) Ref {
	*s.Next++
	c := *s.Next
	s.Heap[c] = v
	s.Fresh[c] = true
	return Ref{Cell: c}
}

func (s *State) assume(t *T) {
	if t.isTrue() {
		return
	}
	s.PC = append(s.PC, t)
}

type execPanic struct{ msg string }

func unsupported(format string, args ...interface{}) {
	panic(execPanic{fmt.Sprintf(format, args...)})
}

func (s *State) load(r Ref) Val {
	if r.isNil() {
		unsupported("internal: load of nil ref")
	}
	v, ok := s.Heap[r.Cell]
	if !ok {
		unsupported("internal: dangling cell %d", r.Cell)
	}
	for _, i := range r.path() {
		a, ok := v.(*Agg)
		if !ok {
			unsupported("internal: path into non-aggregate %T", v)
		}
		if i < 0 || i >= len(a.Elems) {
			unsupported("internal: path index %d out of range %d", i, len(a.Elems))
		}
		v = a.Elems[i]
	}
	return v
}

func (s *State) store(r Ref, nv Val) {
	if r.isNil() {
		unsupported("internal: store to nil ref")
	}
	p := r.path()
	s.Heap[r.Cell] = storeIn(s.Heap[r.Cell], p, nv)
}

func storeIn(v Val, p []int, nv Val) Val {
	if len(p) == 0 {
		return nv
	}
	a, ok := v.(*Agg)
	if !ok {
		unsupported("internal: store path into non-aggregate %T", v)
	}
	return a.with(p[0], storeIn(a.Elems[p[0]], p[1:], nv))
}

// zeroVal builds the zero value of a Go type.
func zeroVal(t types.Type) Val {
	switch u := t.Underlying().(type) {
	case *types.Basic:
		switch {
		case u.Info()&types.IsBoolean != 0:
			return tFalse
		case u.Info()&types.IsInteger != 0:
			return mkInt(0)
		case u.Info()&types.IsFloat != 0:
			return mkReal(ratInt(0))
		case u.Info()&types.IsString != 0:
			return Text{}
		case u.Kind() == types.UnsafePointer:
			return Ref{}
		}
	case *types.Pointer:
		return Ref{}
	case *types.Interface:
		return Iface{}
	case *types.Slice:
		return SliceV{}
	case *types.Map:
		return MapV{}
	case *types.Signature:
		return Closure{}
	case *types.Struct:
		a := &Agg{Typ: t}
		for i := 0; i < u.NumFields(); i++ {
			a.Elems = append(a.Elems, zeroVal(u.Field(i).Type()))
		}
		return a
	case *types.Array:
		a := &Agg{Typ: t}
		for i := int64(0); i < u.Len(); i++ {
			a.Elems = append(a.Elems, zeroVal(u.Elem()))
		}
		return a
	}
	unsupported("zero value of %s", t)
	return nil
}

// describe renders a value for reports.
func describe(s *State, v Val, depth int) string {
	if depth > 4 {
		return "…"
	}
	switch x := v.(type) {
	case nil:
		return "<unset>"
	case *T:
		return x.String()
	case Text:
		return x.String()
	case Ref:
		if x.isNil() {
			return "nil"
		}
		if s == nil {
			return fmt.Sprintf("&cell%d%s", x.Cell, x.Path)
		}
		return "&" + describe(s, s.load(x), depth+1)
	case *Agg:
		var parts []string
		for i, e := range x.Elems {
			name := fmt.Sprint(i)
			if st, ok := x.Typ.(interface{ Underlying() types.Type }); ok && x.Typ != nil {
				if stt, ok := st.Underlying().(*types.Struct); ok {
					name = stt.Field(i).Name()
				}
			}
			parts = append(parts, name+":"+describe(s, e, depth+1))
		}
		return "{" + strings.Join(parts, " ") + "}"
	case Iface:
		if x.Dyn == nil {
			return "nil-iface"
		}
		return types.TypeString(x.Dyn, func(p *types.Package) string { return p.Name() }) + "(" + describe(s, x.V, depth+1) + ")"
	case SliceV:
		if x.Arr.isNil() {
			return "[]nil"
		}
		var parts []string
		for i := 0; i < x.Len_; i++ {
			parts = append(parts, describe(s, s.load(x.Arr.sub(x.Lo+i)), depth+1))
		}
		return "[" + strings.Join(parts, ", ") + "]"
	case Tuple:
		var parts []string
		for _, e := range x {
			parts = append(parts, describe(s, e, depth+1))
		}
		return "(" + strings.Join(parts, ", ") + ")"
	case Closure:
		if x.Fn == nil {
			return "nil-func"
		}
		return "func:" + x.Fn.Name()
	case Opaque:
		return "opaque:" + x.Tag
	case MapV:
		if x.Cell == 0 {
			return "nil-map"
		}
		return fmt.Sprintf("map#%d", x.Cell)
	}
	return fmt.Sprintf("%T", v)
}

func sortedCells(m map[int]Val) []int {
	var ks []int
	for k := range m {
		ks = append(ks, k)
	}
	sort.Ints(ks)
	return ks
}
