package main

// C18 family 1 — error propagation, in abstract mode (DESIGN §3.5, §6 C18): for
// every call site whose callee returns an error e, on every path of the caller
// on which e is non-nil the caller returns a non-nil error (possibly wrapped) or
// reaches abort/os.Exit/panic. Only control flow and "derived from e" facts are
// tracked; everything else is havocked. Deliberate drops are listed in the
// contract files (`errdrop` clauses) with a reason.

import (
	"fmt"
	"go/token"
	"go/types"
	"os"
	"path/filepath"
	"sort"
	"strings"

	"golang.org/x/tools/go/ssa"
	"golang.org/x/tools/go/ssa/ssautil"
)

var errIface = types.Universe.Lookup("error").Type()

func isErrT(t types.Type) bool { return types.Identical(t, errIface) }

func alwaysNonNilErr(v ssa.Value) bool {
	switch x := v.(type) {
	case *ssa.Call:
		if c := x.Call.StaticCallee(); c != nil {
			switch c.String() {
			case "fmt.Errorf", "errors.New", "github.com/pkg/errors.New":
				return true
			}
		}
	case *ssa.UnOp:
		if g, ok := x.X.(*ssa.Global); ok && strings.HasPrefix(strings.ToLower(g.Name()), "err") {
			return true
		}
	case *ssa.MakeInterface:
		return true
	}
	return false
}

func noReturnCall(c *ssa.Call) bool {
	if f := c.Call.StaticCallee(); f != nil {
		s := f.String()
		return s == "os.Exit" || strings.HasSuffix(s, "go-jsonschema.abort")
	}
	return false
}

type errSite struct {
	Name    string
	Fn      *ssa.Function
	Call    *ssa.Call
	Callee  string
	Pos     string
	Drops   []string
	Allowed string // reason when listed as deliberate
}

func calleeName(c *ssa.Call) string {
	if f := c.Call.StaticCallee(); f != nil {
		return f.String()
	}
	if c.Call.Method != nil {
		return c.Call.Method.FullName()
	}
	return "func-value"
}

func shortFn(s string) string {
	s = strings.ReplaceAll(s, "github.com/atombender/go-jsonschema/", "")
	s = strings.ReplaceAll(s, "github.com/atombender/go-jsonschema.", "main.")
	return s
}

// varargsHolds reports whether a variadic slice argument holds a derived value.
func varargsHolds(a ssa.Value, derived map[ssa.Value]bool) bool {
	sl, ok := a.(*ssa.Slice)
	if !ok {
		return false
	}
	al, ok := sl.X.(*ssa.Alloc)
	if !ok {
		return false
	}
	for _, r := range *al.Referrers() {
		ia, ok := r.(*ssa.IndexAddr)
		if !ok {
			continue
		}
		for _, r2 := range *ia.Referrers() {
			if st, ok := r2.(*ssa.Store); ok {
				v := st.Val
				if mi, ok := v.(*ssa.MakeInterface); ok {
					v = mi.X
				}
				if ci, ok := v.(*ssa.ChangeInterface); ok {
					v = ci.X
				}
				if derived[v] {
					return true
				}
			}
		}
	}
	return false
}

func checkErrSite(fn *ssa.Function, call *ssa.Call) []string {
	var out []string
	type key struct {
		b *ssa.BasicBlock
		d string
	}
	seen := map[key]bool{}
	dkey := func(d map[ssa.Value]bool) string {
		var ks []string
		for v := range d {
			ks = append(ks, v.Name())
		}
		sort.Strings(ks)
		return strings.Join(ks, ",")
	}
	var walk func(b *ssa.BasicBlock, from int, prev *ssa.BasicBlock, derived map[ssa.Value]bool)
	walk = func(b *ssa.BasicBlock, from int, prev *ssa.BasicBlock, derived map[ssa.Value]bool) {
		if from == 0 {
			nd := map[ssa.Value]bool{}
			for v := range derived {
				nd[v] = true
			}
			derived = nd
			for _, ins := range b.Instrs {
				p, ok := ins.(*ssa.Phi)
				if !ok {
					break
				}
				for i, pred := range b.Preds {
					if pred == prev {
						if isErrT(p.Type()) && (derived[p.Edges[i]] || alwaysNonNilErr(p.Edges[i])) {
							derived[p] = true
						} else {
							delete(derived, p)
						}
					}
				}
			}
			k := key{b, dkey(derived)}
			if seen[k] {
				return
			}
			seen[k] = true
		}
		for idx := from; idx < len(b.Instrs); idx++ {
			switch i := b.Instrs[idx].(type) {
			case *ssa.Store:
				// result locals (functions with defer) and ordinary locals holding the error
				if derived[i.Val] || (isErrT(i.Val.Type()) && alwaysNonNilErr(i.Val)) {
					derived[i.Addr] = true
				} else if derived[i.Addr] {
					delete(derived, i.Addr)
				}
			case *ssa.UnOp:
				if i.Op == token.MUL && derived[i.X] {
					derived[i] = true
				}
			case *ssa.ChangeInterface:
				if derived[i.X] {
					derived[i] = true
				}
			case *ssa.MakeInterface:
				if derived[i.X] {
					derived[i] = true
				}
			case *ssa.Call:
				if noReturnCall(i) {
					return
				}
				n := calleeName(i)
				wraps := n == "errors.Join" || n == "fmt.Errorf" || strings.HasSuffix(n, "errors.Wrap") || strings.HasSuffix(n, "errors.Wrapf")
				aborts := strings.HasSuffix(n, "go-jsonschema.abortWithErr")
				if wraps || aborts {
					for _, a := range i.Call.Args {
						if derived[a] || varargsHolds(a, derived) {
							if aborts {
								return
							}
							derived[i] = true
						}
					}
				}
				if n == "fmt.Errorf" || n == "errors.New" {
					derived[i] = true
				}
			case *ssa.Panic:
				return
			case *ssa.If:
				if bo, ok := i.Cond.(*ssa.BinOp); ok {
					var v ssa.Value
					if c, ok := bo.Y.(*ssa.Const); ok && c.Value == nil {
						v = bo.X
					} else if c, ok := bo.X.(*ssa.Const); ok && c.Value == nil {
						v = bo.Y
					}
					if v != nil && derived[v] && isErrT(v.Type()) {
						if bo.Op == token.NEQ {
							walk(b.Succs[0], 0, b, derived)
							return
						}
						if bo.Op == token.EQL {
							walk(b.Succs[1], 0, b, derived)
							return
						}
					}
				}
				walk(b.Succs[0], 0, b, derived)
				walk(b.Succs[1], 0, b, derived)
				return
			case *ssa.Jump:
				walk(b.Succs[0], 0, b, derived)
				return
			case *ssa.Return:
				ok, hasErr := false, false
				for _, r := range i.Results {
					if isErrT(r.Type()) {
						hasErr = true
						if derived[r] || alwaysNonNilErr(r) {
							ok = true
						}
					}
				}
				if !ok {
					pos := fn.Prog.Fset.Position(i.Pos())
					what := "returns a nil error"
					if !hasErr {
						what = "function has no error result and continues"
					}
					out = append(out, fmt.Sprintf("%s:%d %s", filepath.Base(pos.Filename), pos.Line, what))
				}
				return
			}
		}
	}
	b := call.Block()
	for idx, ins := range b.Instrs {
		if ins != ssa.Instruction(call) {
			continue
		}
		d := map[ssa.Value]bool{}
		if isErrT(call.Type()) {
			d[call] = true
		}
		for _, r := range *call.Referrers() {
			if ex, ok := r.(*ssa.Extract); ok && isErrT(ex.Type()) {
				d[ex] = true
			}
		}
		walk(b, idx+1, nil, d)
	}
	sort.Strings(out)
	var ded []string
	for i, o := range out {
		if i == 0 || out[i-1] != o {
			ded = append(ded, o)
		}
	}
	return ded
}

// errSites enumerates the error-returning call sites of the module's packages.
func (w *World) errSites() []*errSite {
	var fns []*ssa.Function
	for fn := range ssautil.AllFunctions(w.prog) {
		if fn.Blocks == nil {
			continue
		}
		p := fnPkgPath(fn)
		if fn.Pkg == nil && fn.Parent() != nil {
			p = fnPkgPath(fn.Parent())
		}
		if p == w.modPath || strings.HasPrefix(p, w.modPath+"/pkg/") || strings.HasPrefix(p, w.modPath+"/internal/") {
			if fn.Synthetic != "" {
				continue
			}
			fns = append(fns, fn)
		}
	}
	sort.Slice(fns, func(i, j int) bool { return fns[i].String() < fns[j].String() })
	var sites []*errSite
	for _, fn := range fns {
		ord := map[string]int{}
		for _, b := range fn.Blocks {
			for _, ins := range b.Instrs {
				c, ok := ins.(*ssa.Call)
				if !ok {
					continue
				}
				rt := c.Type()
				has := isErrT(rt)
				if tup, ok := rt.(*types.Tuple); ok && tup.Len() > 0 && isErrT(tup.At(tup.Len()-1).Type()) {
					has = true
				}
				if !has {
					continue
				}
				cn := calleeName(c)
				if cn == "fmt.Errorf" || cn == "errors.New" || cn == "errors.Join" || cn == "github.com/pkg/errors.New" {
					continue
				}
				k := ord[cn]
				ord[cn]++
				pos := w.prog.Fset.Position(c.Pos())
				s := &errSite{Fn: fn, Call: c, Callee: cn, Pos: fmt.Sprintf("%s:%d", strings.TrimPrefix(pos.Filename, w.repo+"/"), pos.Line)}
				s.Name = fmt.Sprintf("%s/errprop:%s#%d", shortFn(fn.String()), shortFn(cn), k)
				sites = append(sites, s)
			}
		}
	}
	return sites
}

// errDrops collects the deliberate drops declared in the contract files.
func (w *World) errDrops() map[string]string {
	out := map[string]string{}
	for _, c := range w.specs.Contracts {
		for _, cl := range c.Clauses {
			if cl.Kind != "errdrop" {
				continue
			}
			parts := strings.SplitN(cl.Raw, ":", 2)
			reason := ""
			if len(parts) > 1 {
				reason = strings.TrimSpace(parts[1])
			}
			out[c.target()+"|"+strings.TrimSpace(parts[0])] = reason
		}
	}
	return out
}

func readLedger(path string) map[string]bool {
	out := map[string]bool{}
	data, err := os.ReadFile(path)
	if err != nil {
		return out
	}
	for _, l := range strings.Split(string(data), "\n") {
		l = strings.TrimSpace(l)
		if l != "" && !strings.HasPrefix(l, "#") {
			out[l] = true
		}
	}
	return out
}

func (w *World) errorPropagation(opts *RunOpts, ex *Extra) {
	sites := w.errSites()
	drops := w.errDrops()
	ledger := readLedger(filepath.Join(opts.Verif, "ledger", "C18-errprop.txt"))
	siteFindings := map[string]*Finding{}
	for _, f := range opts.Findings {
		if f.Kind == "known" && f.Site != "" && hasTag(strings.Split(f.Property, ","), "C18") {
			siteFindings[f.Site] = f
		}
	}
	var proved, deliberate []string
	var samples []interface{}
	for _, s := range sites {
		s.Drops = checkErrSite(s.Fn, s.Call)
		fnKeyName := fnKey(s.Fn)
		if s.Fn.Parent() != nil {
			fnKeyName = s.Fn.Name()
		}
		for k, reason := range drops {
			p := strings.SplitN(k, "|", 2)
			if p[0] == fnKeyName && strings.Contains(s.Callee, p[1]) {
				s.Allowed = reason
			}
		}
		ex.Count++
		switch {
		case len(s.Drops) == 0:
			ex.Discharged++
			proved = append(proved, s.Name)
		case s.Allowed != "":
			ex.Discharged++
			deliberate = append(deliberate, s.Name+" — "+s.Allowed)
		default:
			if f, ok := siteFindings[s.Name]; ok {
				ex.Discharged++ // carved out: the site is the finding
				ex.KnownSeen = append(ex.KnownSeen, fmt.Sprintf("KNOWN-FINDING: property=C18 %s [%s; error-propagation obligation %s fails: %s]", f.Text, f.ID, s.Name, strings.Join(s.Drops, "; ")))
				ex.KnownIDs = append(ex.KnownIDs, f.ID)
				continue
			}
			body := fmt.Sprintf("call of %s at %s: on a path where its error is non-nil, %s %s", shortFn(s.Callee), s.Pos, shortFn(s.Fn.String()), strings.Join(s.Drops, "; "))
			if !ledger[s.Name] && len(ledger) > 0 {
				// a site that did not exist when the ledger was recorded: undecided, not an alarm
				ex.Lines = append(ex.Lines, "UNDECIDED: new error-returning call site not in the ledger drops its error: "+s.Name+" ("+body+")")
				ex.Discharged++
				continue
			}
			path := writeTextReplay(opts, "C18", s.Name, body+"\n(abstract-mode path analysis over go/ssa; no concrete input is derived)", "", "", "bin/govc check C18")
			ex.Lines = append(ex.Lines, fmt.Sprintf("VIOLATION property=C18 replay=%s no-failing-input-found", path))
			ex.Lines = append(ex.Lines, "  failed obligation: "+s.Name+": "+body)
			ex.Violations++
		}
	}
	for i, s := range sites {
		if i%17 == 0 && len(samples) < 6 {
			samples = append(samples, map[string]interface{}{"obligation": s.Name, "kind": "errprop", "at": s.Pos, "dropping_paths": s.Drops})
		}
	}
	ex.Samples = append(ex.Samples, samples...)
	ex.Coverage["error_propagation"] = map[string]interface{}{
		"call_sites": len(sites), "proved": len(proved), "deliberate_drops_listed_in_contracts": deliberate,
		"method": "abstract-mode path analysis over go/ssa (no solver): derived-from-error facts through phis, result locals, fmt.Errorf/errors.Join wrapping, abort/abortWithErr/os.Exit/panic as no-return",
	}
	// stale ledger entries (sites that no longer exist) are reported, never failed
	have := map[string]bool{}
	for _, s := range sites {
		have[s.Name] = true
	}
	var missing []string
	for k := range ledger {
		if !have[k] {
			missing = append(missing, k)
		}
	}
	sort.Strings(missing)
	if len(missing) > 0 {
		ex.Coverage["errprop_ledger_sites_no_longer_present"] = missing
	}
	if os.Getenv("GOVC_WRITE_LEDGER") == "1" {
		os.MkdirAll(filepath.Join(opts.Verif, "ledger"), 0o755)
		var all []string
		for _, s := range sites {
			all = append(all, s.Name)
		}
		os.WriteFile(filepath.Join(opts.Verif, "ledger", "C18-errprop.txt"), []byte("# error-returning call sites present on the unchanged tree (one obligation each)\n"+strings.Join(all, "\n")+"\n"), 0o644)
	}
}
