package main

import (
	"fmt"
	"os"
	"sort"
	"strings"
	"sync"
	"time"
)

// Oblig is one SMT query belonging to a named obligation.
type Oblig struct {
	Kind    string // ensures requires safety frame cover invariant lexical lemma
	Name    string // the named obligation, e.g. NormalizeBounds/ensures#lower
	Func    string
	Tags    []string
	Where   string
	Goal    *T
	Assume  []*T
	Skolems []*T
	Defs    []*T // definitional side constraints of the goal (fresh floors)
	Shape   string
	PathNo  int
	Expect  string // "unsat" (default: goal must follow), "sat" (cover) or "notunsat" (seq-mode vacuity guard)
	Raw     string // seq mode: the complete SMT-LIB script (Goal/Assume are for display only)
	Notes   []string
	// carve-out handling
	Carved   bool   // goal proved only outside a known-finding carve-out
	CarveOf  string // finding id
	CarveHit bool   // this is the canary query (must be sat)
	// result
	Res      SolveResult
	Trivial  bool
	replayFn func(ob *Oblig) *ReplayOutcome
	ctx      *obCtx
}

// obCtx keeps what is needed to re-evaluate a goal on concrete values (replay).
type obCtx struct {
	shape  *ShapeCase
	pre    *State
	post   *State
	rets   []Val
	clause *Clause
	con    *Contract
}

func (o *Oblig) ok() bool {
	if o.Expect == "sat" {
		return o.Res.Status == "sat"
	}
	if o.Expect == "notunsat" {
		return o.Res.Status != "unsat"
	}
	return o.Trivial || o.Res.Status == "unsat"
}

var quantLemmas = os.Getenv("GOVC_QUANT") == "1"

func (e *Exec) emit(s *State, ob *Oblig) {
	ob.Func = e.fnName()
	if ob.ctx == nil && e.curCtx != nil {
		ob.ctx = e.curCtx
	}
	if ob.Tags == nil && e.conUnder != nil {
		ob.Tags = e.conUnder.Props
	}
	ob.Assume = append(append([]*T{}, s.PC...), ob.Defs...)
	ob.Shape = e.scenario
	// instantiate assumed quantified facts with the goal's skolems
	for li, l := range s.Lemmas {
		// the quantified fact itself (only on request: slower, MBQI) ...
		if quantLemmas {
			func() {
				defer func() {
					if r := recover(); r != nil {
						if _, ok := r.(specPanic); ok {
							return
						}
						panic(r)
					}
				}()
				qv := mkVar(fmt.Sprintf("q!%s!%d", l.Var, li), l.Sort)
				env := copyEnv(l.Env)
				env[l.Var] = qv
				post := l.Post
				if post == nil {
					post = s
				}
				ctx := &EvalCtx{sp: e.w.specs, env: env, st: post, old: l.Pre, assume: true, ex: e, origin: l.Origin}
				ob.Assume = append(ob.Assume, mkForall(qv, ctx.evalClause(l.Body)))
			}()
		}
		// ... plus its instances at the goal's skolems
		for _, sk := range ob.Skolems {
			var inst *T
			switch {
			case sk.Sort == l.Sort:
				inst = sk
			case sk.Sort == SInt && l.Sort == SReal:
				inst = toReal(sk)
			default:
				continue
			}
			func() {
				defer func() {
					if r := recover(); r != nil {
						if _, ok := r.(specPanic); ok {
							return
						}
						panic(r)
					}
				}()
				env := copyEnv(l.Env)
				env[l.Var] = inst
				post := l.Post
				if post == nil {
					post = s
				}
				var defs []*T
				ctx := &EvalCtx{sp: e.w.specs, env: env, st: post, old: l.Pre, assume: true, ex: e, origin: l.Origin, defs: &defs}
				t := ctx.evalClause(l.Body)
				ob.Assume = append(ob.Assume, t)
				ob.Assume = append(ob.Assume, defs...)
				ob.Notes = append(ob.Notes, "instantiated "+l.Origin+" at "+sk.String())
			}()
		}
	}
	for _, tr := range s.Trace {
		if strings.HasPrefix(tr, "assume") || strings.HasPrefix(tr, "float") {
			ob.Notes = append(ob.Notes, tr)
		}
	}
	e.sink(ob)
}

// discharge runs the solver pool over all queries.
func discharge(obs []*Oblig, thorough bool, timeout time.Duration, workers int) {
	var wg sync.WaitGroup
	ch := make(chan *Oblig)
	for i := 0; i < workers; i++ {
		wg.Add(1)
		go func() {
			defer wg.Done()
			for ob := range ch {
				if ob.Raw != "" {
					ob.Res = solve(ob.Raw, thorough && ob.Expect != "notunsat", timeout)
					if d := os.Getenv("GOVC_DUMP"); d != "" && !ob.ok() {
						os.MkdirAll(d, 0o755)
						os.WriteFile(fmt.Sprintf("%s/%s-%d.smt2", d, sanitize(ob.Name), ob.PathNo), []byte(ob.Raw+"; "+ob.Res.Status+"\n"), 0o644)
					}
					continue
				}
				if ob.Expect != "sat" && ob.Goal.isTrue() {
					ob.Trivial = true
					ob.Res = SolveResult{Status: "unsat", Solver: "simplifier"}
					continue
				}
				ob.Res = solve(script(ob.Assume, ob.Goal, ""), thorough, timeout)
				if d := os.Getenv("GOVC_DUMP"); d != "" && !ob.ok() {
					os.MkdirAll(d, 0o755)
					os.WriteFile(fmt.Sprintf("%s/%s-%d.smt2", d, sanitize(ob.Name), ob.PathNo), []byte(script(ob.Assume, ob.Goal, "")+"; "+ob.Res.Status+" shape "+ob.Shape+"\n"), 0o644)
				}
			}
		}()
	}
	for _, ob := range obs {
		ch <- ob
	}
	close(ch)
	wg.Wait()
	// Second chance for queries no solver answered (a loaded machine makes the
	// 10 s budget of the quick tier too tight now and then): all three solvers,
	// six times the budget, few at a time. Only what is still unanswered after
	// that is reported.
	var again []*Oblig
	for _, ob := range obs {
		if st := ob.Res.Status; !ob.Trivial && st != "sat" && st != "unsat" && ob.Expect != "notunsat" {
			again = append(again, ob)
		}
	}
	if len(again) == 0 {
		return
	}
	long := 6 * timeout
	if long > 2*time.Minute {
		long = 2 * time.Minute
	}
	w2 := workers / 4
	if w2 < 1 {
		w2 = 1
	}
	ch2 := make(chan *Oblig)
	var wg2 sync.WaitGroup
	for i := 0; i < w2; i++ {
		wg2.Add(1)
		go func() {
			defer wg2.Done()
			for ob := range ch2 {
				first := ob.Res
				text := ob.Raw
				if text == "" {
					text = script(ob.Assume, ob.Goal, "")
				}
				r := solve(text, true, long)
				r.Seconds += first.Seconds
				r.Retried = true
				ob.Res = r
			}
		}()
	}
	for _, ob := range again {
		ch2 <- ob
	}
	close(ch2)
	wg2.Wait()
}

// Named groups queries by named obligation.
type Named struct {
	Name     string
	Kind     string
	Tags     []string
	Queries  []*Oblig
	Failed   []*Oblig
	Carved   bool
	Finding  string
	Seconds  float64
	BySolver map[string]int
}

func groupNamed(obs []*Oblig) []*Named {
	m := map[string]*Named{}
	var order []string
	for _, ob := range obs {
		n, ok := m[ob.Name]
		if !ok {
			n = &Named{Name: ob.Name, Kind: ob.Kind, Tags: ob.Tags, BySolver: map[string]int{}}
			m[ob.Name] = n
			order = append(order, ob.Name)
		}
		n.Queries = append(n.Queries, ob)
		n.Seconds += ob.Res.Seconds
		n.BySolver[ob.Res.Solver]++
		if !ob.ok() {
			n.Failed = append(n.Failed, ob)
		}
		if ob.Carved {
			n.Carved = true
			n.Finding = ob.CarveOf
		}
		for _, t := range ob.Tags {
			found := false
			for _, x := range n.Tags {
				if x == t {
					found = true
				}
			}
			if !found {
				n.Tags = append(n.Tags, t)
			}
		}
	}
	sort.Strings(order)
	var out []*Named
	for _, k := range order {
		out = append(out, m[k])
	}
	return out
}

func hasTag(tags []string, id string) bool {
	for _, t := range tags {
		if t == id {
			return true
		}
	}
	return false
}

func (o *Oblig) describe() string {
	var sb strings.Builder
	fmt.Fprintf(&sb, "obligation %s\n  kind: %s   function: %s   where: %s\n  shape: %s   path: %d\n", o.Name, o.Kind, o.Func, o.Where, o.Shape, o.PathNo)
	for _, a := range o.Assume {
		fmt.Fprintf(&sb, "  assume %s\n", a)
	}
	fmt.Fprintf(&sb, "  goal   %s\n  result %s by %s in %.2fs\n", o.Goal, o.Res.Status, o.Res.Solver, o.Res.Seconds)
	if o.Res.Status == "sat" {
		var ks []string
		for k := range o.Res.Model {
			ks = append(ks, k)
		}
		sort.Strings(ks)
		for _, k := range ks {
			fmt.Fprintf(&sb, "    %s = %s\n", k, o.Res.Model[k])
		}
	}
	return sb.String()
}
