package main

// Format-string sweep (C01; also C06, C08): every printf-style call in the
// module passes a CONSTANT format string (or, inside a printf-style wrapper, the
// wrapper's own format parameter). Text that comes from a schema — a pattern, an
// enum value, a name — must be an ARGUMENT, never part of the format: otherwise a
// '%' in it is interpreted and the emitted code differs from the template.
// Abstract-mode obligation over go/ssa, one per call site.

import (
	"fmt"
	"sort"
	"strings"

	"golang.org/x/tools/go/ssa"
	"golang.org/x/tools/go/ssa/ssautil"
)

// printfLike returns the index of the format argument in Call.Args, or -1.
func printfLike(c *ssa.Call) int {
	n := calleeName(c)
	switch {
	case n == "fmt.Sprintf" || n == "fmt.Errorf" || n == "fmt.Printf":
		return 0
	case n == "fmt.Fprintf":
		return 1
	case strings.HasSuffix(n, "codegen.Emitter).Printf") || strings.HasSuffix(n, "codegen.Emitter).Printlnf") || strings.HasSuffix(n, "codegen.Emitter).Commentf"):
		return 1
	case strings.HasSuffix(n, "go-jsonschema.logf") || strings.HasSuffix(n, "go-jsonschema.verboseLogf"):
		return 0
	}
	return -1
}

func (w *World) fmtSweep(id string, opts *RunOpts, ex *Extra) {
	var fns []*ssa.Function
	for fn := range ssautil.AllFunctions(w.prog) {
		if fn.Blocks == nil || fn.Synthetic != "" {
			continue
		}
		p := fnPkgPath(fn)
		if fn.Pkg == nil && fn.Parent() != nil {
			p = fnPkgPath(fn.Parent())
		}
		if p == w.modPath || strings.HasPrefix(p, w.modPath+"/pkg/") || strings.HasPrefix(p, w.modPath+"/internal/") {
			fns = append(fns, fn)
		}
	}
	sort.Slice(fns, func(i, j int) bool { return fns[i].String() < fns[j].String() })
	sites, okSites := 0, 0
	var sample []interface{}
	for _, fn := range fns {
		ord := map[string]int{}
		for _, b := range fn.Blocks {
			for _, ins := range b.Instrs {
				c, ok := ins.(*ssa.Call)
				if !ok {
					continue
				}
				fi := printfLike(c)
				if fi < 0 || fi >= len(c.Call.Args) {
					continue
				}
				cn := shortFn(calleeName(c))
				k := ord[cn]
				ord[cn]++
				name := fmt.Sprintf("%s/fmt-const:%s#%d", shortFn(fn.String()), cn, k)
				sites++
				ex.Count++
				fv := c.Call.Args[fi]
				good := false
				switch v := fv.(type) {
				case *ssa.Const:
					good = true
				case *ssa.Parameter:
					// a wrapper forwarding its own format parameter
					good = strings.Contains(strings.ToLower(v.Name()), "format") || v.Name() == "s"
				}
				if good {
					okSites++
					ex.Discharged++
					if len(sample) < 2 {
						sample = append(sample, map[string]interface{}{"obligation": name, "kind": "fmt-const", "format": trunc(fv.String(), 80)})
					}
					continue
				}
				p := w.prog.Fset.Position(c.Pos())
				msg := fmt.Sprintf("the format string of %s at %s:%d is not a constant (%s): text from the schema that reaches it is interpreted by fmt, so a '%%' in it changes the emitted code", cn, strings.TrimPrefix(p.Filename, w.repo+"/"), p.Line, trunc(fv.String(), 80))
				path := writeTextReplay(opts, id, name, msg+"\n(abstract-mode obligation over go/ssa)", "", "", "bin/govc check "+id)
				ex.Lines = append(ex.Lines, fmt.Sprintf("VIOLATION property=%s replay=%s no-failing-input-found", id, path))
				ex.Lines = append(ex.Lines, "  failed obligation: "+name+": "+msg)
				ex.Violations++
			}
		}
	}
	ex.Samples = append(ex.Samples, sample...)
	ex.Coverage["format_string_sweep"] = map[string]interface{}{"printf_style_call_sites": sites, "constant_format": okSites}
}
