package main

import (
	"fmt"
	"path/filepath"
	"strings"
	"sync"
)

// Extra (non-SSA-path) obligation families per property; filled in by later files.

type Extra struct {
	Obs         []*Oblig
	Count       int // named obligations decided without the solver pool
	Discharged  int
	KnownSeen   []string
	KnownIDs    []string
	Assumptions []string
	Samples     []interface{}
	Coverage    map[string]interface{}
	Lines       []string
	Violations  int
	EngineError bool
}

func (w *World) extraChecks(id string, opts *RunOpts) *Extra {
	ex := &Extra{Coverage: map[string]interface{}{}}
	w.witnessFindings(id, opts, ex)
	if id == "C14" || id == "C01" || (id >= "C02" && id <= "C09") || id == "C17" || id == "C19" {
		// C01: an identifier that is not a valid Go identifier does not compile;
		// C02..C09, C17, C19: a field that is not exported is never filled in by the
		// decoders, so every check on it sees the zero value
		w.boundedC14(id, opts, ex)
	}
	w.callOrder(id, opts, ex)
	if id == "C01" || id == "C06" || id == "C08" || id == "C09" || id == "C14" || id == "C16" {
		// C14/C16: struct tags carry the property's name verbatim; a name that reaches
		// a format string does not
		w.fmtSweep(id, opts, ex)
	}
	if id == "C16" {
		w.flagTable(opts, ex)
	}
	if id == "C12" {
		w.envSweep(id, opts, ex)
		w.mapRanges(opts, ex)
	}
	if id == "C18" {
		w.deferredErrorStores(id, opts, ex)
		w.errorPropagation(opts, ex)
	}
	return ex
}

// witnessFindings re-runs, end to end on the real generator and the code it
// emits, the stored witness of every known finding of this property that is
// identified by a concrete input (rather than by an obligation carve-out).
func (w *World) witnessFindings(id string, opts *RunOpts, ex *Extra) {
	type job struct {
		f   *Finding
		c   *E2ECase
		r   *E2EResult
		err error
	}
	var jobs []*job
	for _, f := range opts.Findings {
		if f.Kind != "known" || f.Carve != "" || f.Witness == "" || f.Site != "" || !hasTag(strings.Split(f.Property, ","), id) {
			continue
		}
		c, err := loadE2ECase(filepath.Join(opts.Verif, f.Witness))
		jobs = append(jobs, &job{f: f, c: c, err: err})
	}
	var wg sync.WaitGroup
	for _, j := range jobs {
		if j.err != nil {
			continue
		}
		wg.Add(1)
		go func(j *job) {
			defer wg.Done()
			j.r, j.err = runE2E(opts, j.c)
		}(j)
	}
	wg.Wait()
	var rows []interface{}
	for _, j := range jobs {
		if j.err != nil {
			ex.Lines = append(ex.Lines, fmt.Sprintf("note: witness of known finding %s could not be run: %v", j.f.ID, j.err))
			continue
		}
		viol := j.c.violations(j.r)
		rows = append(rows, map[string]interface{}{"finding": j.f.ID, "witness": j.f.Witness, "still_fails": len(viol) > 0, "observed": viol, "seconds": j.r.Seconds})
		if len(viol) > 0 {
			ex.KnownSeen = append(ex.KnownSeen, fmt.Sprintf("KNOWN-FINDING: property=%s %s [%s; witness %s replayed end to end: %s]", id, j.f.Text, j.f.ID, j.f.Witness, strings.ReplaceAll(trunc(viol[0], 200), "\n", " ")))
			ex.KnownIDs = append(ex.KnownIDs, j.f.ID)
		} else {
			ex.Lines = append(ex.Lines, fmt.Sprintf("note: known finding %s no longer reproduces on its witness %s; entry is stale", j.f.ID, j.f.Witness))
		}
	}
	if len(rows) > 0 {
		ex.Coverage["known_finding_witness_replays"] = rows
	}
}
