package main

// Stage 2 (DESIGN §3.4): the text emitted by a generator function (a Text with
// holes, produced by stage 1 = symbolic execution of the real emitter) is parsed
// with go/parser and given its meaning by a small symbolic interpreter, so that a
// postcondition can say "the emitted code rejects x iff not spec(x)".

import (
	"fmt"
	"go/ast"
	goparser "go/parser"
	"go/token"
	"go/types"
	"math/big"
	"os"
	"sort"
	"strconv"
	"strings"
)

// Values of the generated program's state.
type GenStr struct {
	Bytes, Runes, Matched *T
}
type GenSlice struct{ IsNil, Len *T }
type GenArr struct {
	Level, Target int
	Leaf          Val
	Len           *T
}
type GenNilable struct{ IsNil *T }
type GenMap struct {
	IsNil   *T
	Key     string // rendered key of interest
	keyText Val
	Has     *T
	VNil    *T
}
type GenErr struct{ NonNil *T }
type GenObj struct{ Name string }
type GenOpaque struct{ What string }
type GenTuple []Val

type Sigma struct {
	Vars map[string]Val
	Heap map[int]Val
}

// Fragment is an emitted text prepared for interpretation.
type Fragment struct {
	Src      string
	Holes    map[string]Frag // placeholder -> hole
	File     *ast.File
	Fset     *token.FileSet
	ParseErr string
	Body     []ast.Stmt
	Comments int
}

func holeName(k int, kind FragKind) string {
	if kind == FNum {
		return fmt.Sprintf("NUMx%dx", k)
	}
	return fmt.Sprintf("ATOMx%dx", k)
}

var fragCache = map[string]*Fragment{}

// prepareFragment renders the text with placeholders and parses it as the
// body of a function.
func prepareFragment(t Text) *Fragment {
	fr := &Fragment{Holes: map[string]Frag{}}
	var sb strings.Builder
	names := map[string]string{} // atom name / num term string -> placeholder
	for _, f := range t.Frags {
		switch f.Kind {
		case FLit:
			sb.WriteString(f.Lit)
		case FAtom:
			n, ok := names["a:"+f.Atom]
			if !ok {
				n = holeName(len(names), FAtom)
				names["a:"+f.Atom] = n
				fr.Holes[n] = f
			}
			sb.WriteString(n)
		case FNum:
			key := "n:" + f.Term.String() + ":" + f.GoType + ":" + string(f.Verb)
			n, ok := names[key]
			if !ok {
				n = holeName(len(names), FNum)
				names[key] = n
				fr.Holes[n] = f
			}
			sb.WriteString(n)
		}
	}
	// comment lines emitted through Emitter.Comment*: dropped (they are `// ...`)
	var lines []string
	for _, l := range strings.Split(sb.String(), "\n") {
		if i := strings.Index(l, "\x00COMMENT "); i >= 0 {
			fr.Comments++
			continue
		}
		lines = append(lines, l)
	}
	body := strings.Join(lines, "\n")
	fr.Src = body
	if os.Getenv("GOVC_DEBUG_FRAG") != "" {
		fmt.Fprintf(os.Stderr, "FRAGMENT<<%s>>\n", body)
	}
	if c, ok := fragCache[body]; ok {
		cp := *c
		cp.Holes = fr.Holes
		return &cp
	}
	fr.Fset = token.NewFileSet()
	wrapped := "package p\nfunc frag() error {\n" + body + "\nreturn nil\n}\n"
	if strings.Contains(body, "func (") { // a whole method was emitted
		wrapped = "package p\n" + body + "\n"
	}
	file, err := goparser.ParseFile(fr.Fset, "emitted.go", wrapped, goparser.SkipObjectResolution)
	if err != nil {
		fr.ParseErr = err.Error()
		fragCache[body] = fr
		return fr
	}
	fr.File = file
	for _, d := range file.Decls {
		if fd, ok := d.(*ast.FuncDecl); ok && fd.Body != nil {
			fr.Body = fd.Body.List
			if fd.Name.Name == "frag" && len(fr.Body) > 0 {
				fr.Body = fr.Body[:len(fr.Body)-1] // our own trailing return nil
			}
		}
	}
	fragCache[body] = fr
	return fr
}

// ---------------------------------------------------------------------------

type genInterp struct {
	fr      *Fragment
	sig     *Sigma
	pc      *T
	rej     *T // a `return <non-nil error>` has been executed
	acc     *T // a `return nil` has been executed
	pan     *T // a run-time panic occurs
	asg     map[string]*T
	loops   []loopVar
	errs    []string
	fresh   func(prefix string, s Sort) *T
	afterLp bool
	num     numCtx
	writes  []string // lvalues written, in order
}

type loopVar struct {
	name string
	over string // rendered expression ranged over
}

func (g *genInterp) fail(format string, args ...interface{}) {
	g.errs = append(g.errs, fmt.Sprintf(format, args...))
}

func render(e ast.Expr) string {
	switch x := e.(type) {
	case *ast.Ident:
		return x.Name
	case *ast.SelectorExpr:
		return render(x.X) + "." + x.Sel.Name
	case *ast.IndexExpr:
		return render(x.X) + "[" + render(x.Index) + "]"
	case *ast.StarExpr:
		return "*" + render(x.X)
	case *ast.ParenExpr:
		return "(" + render(x.X) + ")"
	case *ast.BasicLit:
		return x.Value
	case *ast.CallExpr:
		var as []string
		for _, a := range x.Args {
			as = append(as, render(a))
		}
		return render(x.Fun) + "(" + strings.Join(as, ", ") + ")"
	case *ast.UnaryExpr:
		return x.Op.String() + render(x.X)
	case *ast.ArrayType:
		if x.Len == nil {
			return "[]" + render(x.Elt)
		}
		return "[" + render(x.Len) + "]" + render(x.Elt)
	case *ast.MapType:
		return "map[" + render(x.Key) + "]" + render(x.Value)
	case *ast.InterfaceType:
		return "interface{}"
	case *ast.Ellipsis:
		return "..."
	case *ast.BinaryExpr:
		return render(x.X) + " " + x.Op.String() + " " + render(x.Y)
	}
	return fmt.Sprintf("<%T>", e)
}

func (g *genInterp) panicIf(c *T) { g.pan = mkOr(g.pan, mkAnd(g.pc, c)) }

func (g *genInterp) boolOf(v Val, e ast.Expr) *T {
	t, ok := v.(*T)
	if !ok || t.Sort != SBool {
		g.fail("condition %s is not boolean (%T)", render(e), v)
		return g.fresh("cond", SBool)
	}
	return t
}

func (g *genInterp) holeVal(name string) (Val, bool) {
	h, ok := g.fr.Holes[name]
	if !ok {
		return nil, false
	}
	if h.Kind == FNum {
		return h.Term, true
	}
	return GenOpaque{What: "atom " + h.Atom}, true
}

func (g *genInterp) eval(e ast.Expr) Val {
	switch x := e.(type) {
	case *ast.ParenExpr:
		return g.eval(x.X)
	case *ast.Ident:
		switch x.Name {
		case "nil":
			return NilV{}
		case "true":
			return tTrue
		case "false":
			return tFalse
		}
		if v, ok := g.holeVal(x.Name); ok {
			return v
		}
		if v, ok := g.sig.Vars[x.Name]; ok {
			return v
		}
		g.fail("unbound identifier %s in emitted code", x.Name)
		return GenOpaque{What: x.Name}
	case *ast.BasicLit:
		switch x.Kind {
		case token.INT:
			i, ok := new(big.Int).SetString(x.Value, 0)
			if !ok {
				g.fail("bad int literal %s", x.Value)
				return mkInt(0)
			}
			return mkIntBig(i)
		case token.FLOAT:
			r, ok := new(big.Rat).SetString(x.Value)
			if !ok {
				g.fail("bad float literal %s", x.Value)
				return mkReal(ratInt(0))
			}
			return mkReal(r)
		case token.STRING:
			s, err := strconv.Unquote(x.Value)
			if err != nil {
				s = x.Value
			}
			return GenOpaque{What: "string:" + s}
		}
	case *ast.SelectorExpr:
		key := render(x)
		if v, ok := g.sig.Vars[key]; ok {
			return v
		}
		g.fail("unbound selector %s in emitted code", key)
		return GenOpaque{What: key}
	case *ast.StarExpr:
		v := g.eval(x.X)
		r, ok := v.(Ref)
		if !ok {
			g.fail("dereference of non-pointer %s", render(x.X))
			return GenOpaque{What: render(x)}
		}
		if r.isNil() {
			g.panicIf(tTrue)
			g.pc = tFalse // nothing executes after the panic
			return GenOpaque{What: "deref-nil"}
		}
		return g.sig.Heap[r.Cell]
	case *ast.UnaryExpr:
		switch x.Op {
		case token.NOT:
			return mkNot(g.boolOf(g.eval(x.X), x.X))
		case token.SUB:
			if t, ok := g.eval(x.X).(*T); ok {
				if t.Sort == SInt {
					return mkArith("-", mkInt(0), t)
				}
				return mkArith("-", mkReal(ratInt(0)), t)
			}
		case token.AND:
			return GenOpaque{What: "&" + render(x.X)}
		}
		g.fail("unary %s not understood", x.Op)
		return GenOpaque{What: render(x)}
	case *ast.BinaryExpr:
		return g.binary(x)
	case *ast.IndexExpr:
		return g.index(x)
	case *ast.CallExpr:
		return g.call(x)
	}
	g.fail("expression %T not understood", e)
	return GenOpaque{What: render(e)}
}

func (g *genInterp) isNilCond(v Val) (*T, bool) {
	switch x := v.(type) {
	case Ref:
		return mkBool(x.isNil()), true
	case GenSlice:
		return x.IsNil, true
	case GenNilable:
		return x.IsNil, true
	case GenMap:
		return x.IsNil, true
	case GenErr:
		return mkNot(x.NonNil), true
	case GenArr:
		return tFalse, true
	case NilV:
		return tTrue, true
	}
	return nil, false
}

func (g *genInterp) binary(x *ast.BinaryExpr) Val {
	switch x.Op {
	case token.LAND:
		a := g.boolOf(g.eval(x.X), x.X)
		save := g.pc
		g.pc = mkAnd(g.pc, a)
		b := g.boolOf(g.eval(x.Y), x.Y)
		g.pc = save
		return mkAnd(a, b)
	case token.LOR:
		a := g.boolOf(g.eval(x.X), x.X)
		save := g.pc
		g.pc = mkAnd(g.pc, mkNot(a))
		b := g.boolOf(g.eval(x.Y), x.Y)
		g.pc = save
		return mkOr(a, b)
	}
	l, r := g.eval(x.X), g.eval(x.Y)
	if _, ok := r.(NilV); ok || isNilV(l) {
		if isNilV(l) {
			l, r = r, l
		}
		c, ok := g.isNilCond(l)
		if !ok {
			g.fail("comparison of %s with nil not understood (%T)", render(x.X), l)
			return g.fresh("nilcmp", SBool)
		}
		switch x.Op {
		case token.EQL:
			return c
		case token.NEQ:
			return mkNot(c)
		}
	}
	lt, ok1 := l.(*T)
	rt, ok2 := r.(*T)
	isCmp := x.Op == token.LSS || x.Op == token.LEQ || x.Op == token.GTR || x.Op == token.GEQ || x.Op == token.EQL || x.Op == token.NEQ
	if !ok1 || !ok2 || (lt.Sort == SBool) != (rt.Sort == SBool) {
		if !g.pc.isFalse() { // dead code (e.g. behind a failed nil guard) needs no meaning
			g.fail("operands of %s not understood (%T, %T)", render(x), l, r)
		}
		if isCmp {
			return g.fresh("binop", SBool)
		}
		return GenOpaque{What: render(x)}
	}
	switch x.Op {
	case token.LSS:
		return mkCmp("<", lt, rt)
	case token.LEQ:
		return mkCmp("<=", lt, rt)
	case token.GTR:
		return mkCmp(">", lt, rt)
	case token.GEQ:
		return mkCmp(">=", lt, rt)
	case token.EQL:
		return mkEq(lt, rt)
	case token.NEQ:
		return mkNot(mkEq(lt, rt))
	case token.REM:
		if lt.Sort != SInt || rt.Sort != SInt {
			g.fail("%% on non-integers")
			return g.fresh("rem", SInt)
		}
		g.panicIf(mkEq(rt, mkInt(0)))
		return &T{Op: "gomod", Args: []*T{lt, rt}, Sort: SInt}
	case token.ADD:
		return mkArith("+", lt, rt)
	case token.SUB:
		return mkArith("-", lt, rt)
	}
	g.fail("operator %s not understood", x.Op)
	return g.fresh("binop", SBool)
}

func isNilV(v Val) bool { _, ok := v.(NilV); return ok }

func (g *genInterp) index(x *ast.IndexExpr) Val {
	base := g.eval(x.X)
	switch b := base.(type) {
	case GenArr:
		// the index must be the loop variable ranging over this very expression
		idx := render(x.Index)
		over := render(x.X)
		okIdx := false
		for _, lv := range g.loops {
			if lv.name == idx && lv.over == over {
				okIdx = true
			}
		}
		if !okIdx {
			// not the loop variable ranging over this very expression: nothing
			// bounds the index, so an out-of-range panic is possible
			g.panicIf(g.fresh("index-out-of-range!"+idx, SBool))
		}
		if b.Level+1 == b.Target {
			return b.Leaf
		}
		return GenArr{Level: b.Level + 1, Target: b.Target, Leaf: b.Leaf, Len: g.fresh("len", SInt)}
	case GenMap:
		key := render(x.Index)
		if key == strconv.Quote(b.Key) || key == "`"+b.Key+"`" {
			return GenTuple{GenNilable{IsNil: mkOr(mkNot(b.Has), b.VNil)}, mkAnd(mkNot(b.IsNil), b.Has)}
		}
		return GenTuple{GenNilable{IsNil: g.fresh("mapval", SBool)}, g.fresh("mapok", SBool)}
	case GenSlice:
		g.fail("indexing the target-level array %s", render(x.X))
	}
	g.fail("index expression %s not understood (%T)", render(x), base)
	return GenOpaque{What: render(x)}
}

func (g *genInterp) lenOf(v Val, e ast.Expr) *T {
	switch x := v.(type) {
	case GenSlice:
		return mkIte(x.IsNil, mkInt(0), x.Len)
	case GenArr:
		return x.Len
	case GenStr:
		return x.Bytes
	}
	if !g.pc.isFalse() {
		g.fail("len(%s) not understood (%T)", render(e), v)
	}
	return g.fresh("len", SInt)
}

func (g *genInterp) call(x *ast.CallExpr) Val {
	fn := render(x.Fun)
	if at, ok := x.Fun.(*ast.ArrayType); ok && at.Len == nil && render(at.Elt) == "rune" && len(x.Args) == 1 {
		if gs, ok := g.eval(x.Args[0]).(GenStr); ok {
			return GenSlice{IsNil: tFalse, Len: gs.Runes}
		}
	}
	switch fn {
	case "utf8.RuneCountInString":
		if gs, ok := g.eval(x.Args[0]).(GenStr); ok {
			return gs.Runes
		}
		if g.pc.isFalse() {
			return g.fresh("runes", SInt)
		}
	case "len":
		return g.lenOf(g.eval(x.Args[0]), x.Args[0])
	case "string":
		return g.eval(x.Args[0])
	case "fmt.Errorf", "errors.Join", "errors.New":
		for _, a := range x.Args {
			if _, isLit := a.(*ast.BasicLit); !isLit {
				g.evalForEffect(a)
			}
		}
		return GenErr{NonNil: tTrue}
	case "fmt.Sprintf":
		for _, a := range x.Args[1:] {
			g.evalForEffect(a)
		}
		return GenOpaque{What: "string"}
	case "regexp.MatchString":
		s := g.eval(x.Args[1])
		gs, ok := s.(GenStr)
		if !ok {
			if !g.pc.isFalse() {
				g.fail("regexp.MatchString on %T", s)
			}
			return GenTuple{g.fresh("matched", SBool), GenErr{NonNil: g.fresh("reerr", SBool)}}
		}
		return GenTuple{gs.Matched, GenErr{NonNil: tFalse}}
	case "math.Abs", "math.Mod":
		var as []*T
		for _, a := range x.Args {
			t, ok := g.eval(a).(*T)
			if !ok {
				if !g.pc.isFalse() {
					g.fail("math argument not numeric")
				}
				t = mkReal(ratInt(0))
			}
			as = append(as, toReal(t))
		}
		return &T{Op: "uf_" + strings.ReplaceAll(fn, ".", "_"), Args: as, Sort: SReal}
	case "append":
		base := g.eval(x.Args[0])
		if sl, ok := base.(GenSlice); ok {
			return GenSlice{IsNil: tFalse, Len: mkArith("+", mkIte(sl.IsNil, mkInt(0), sl.Len), mkInt(int64(len(x.Args)-1)))}
		}
	}
	// method call on a local object: x_0.UnmarshalJSON(value)
	if sel, ok := x.Fun.(*ast.SelectorExpr); ok {
		if obj, ok := g.sig.Vars[render(sel.X)].(GenObj); ok && strings.HasPrefix(sel.Sel.Name, "Unmarshal") {
			return GenErr{NonNil: mkVar("fail!"+obj.Name, SBool)}
		}
	}
	g.fail("call %s not understood", fn)
	return GenOpaque{What: render(x)}
}

func (g *genInterp) evalForEffect(e ast.Expr) {
	switch e.(type) {
	case *ast.BasicLit:
		return
	}
	g.eval(e)
}

func (g *genInterp) assign(lhs ast.Expr, v Val, define bool) {
	key := render(lhs)
	if key == "_" {
		return
	}
	g.writes = append(g.writes, key)
	old, had := g.sig.Vars[key]
	if !define && !had {
		if _, isStar := lhs.(*ast.StarExpr); !isStar {
			g.fail("assignment to unknown lvalue %s", key)
		}
	}
	g.asg[key] = mkOr(orFalse(g.asg[key]), g.pc)
	if had && !define && !g.pc.isTrue() {
		// conditional update: keep a merged value where both are scalars
		ot, ok1 := old.(*T)
		nt, ok2 := v.(*T)
		if ok1 && ok2 && ot.Sort == nt.Sort {
			g.sig.Vars[key] = mkIte(g.pc, nt, ot)
			return
		}
		if os, ok := old.(GenSlice); ok {
			if ns, ok := v.(GenSlice); ok {
				g.sig.Vars[key] = GenSlice{IsNil: mkIte(g.pc, ns.IsNil, os.IsNil), Len: mkIte(g.pc, ns.Len, os.Len)}
				return
			}
		}
		// non-scalar conditional assignment: the lvalue's later value is opaque
		g.sig.Vars[key] = GenOpaque{What: "maybe-assigned " + key}
		return
	}
	g.sig.Vars[key] = v
}

func orFalse(t *T) *T {
	if t == nil {
		return tFalse
	}
	return t
}

func (g *genInterp) stmts(list []ast.Stmt) {
	for _, s := range list {
		g.stmt(s)
	}
}

func (g *genInterp) stmt(s ast.Stmt) {
	switch x := s.(type) {
	case *ast.BlockStmt:
		g.stmts(x.List)
	case *ast.IfStmt:
		if x.Init != nil {
			g.stmt(x.Init)
		}
		c := g.boolOf(g.eval(x.Cond), x.Cond)
		save := g.pc
		g.pc = mkAnd(save, c)
		g.stmts(x.Body.List)
		thenPC := g.pc
		g.pc = mkAnd(save, mkNot(c))
		if x.Else != nil {
			g.stmt(x.Else)
		}
		g.pc = mkOr(thenPC, g.pc)
	case *ast.ReturnStmt:
		if len(x.Results) != 1 {
			g.fail("return with %d results", len(x.Results))
			g.pc = tFalse
			return
		}
		v := g.eval(x.Results[0])
		switch r := v.(type) {
		case NilV:
			g.acc = mkOr(g.acc, g.pc)
		case GenErr:
			g.rej = mkOr(g.rej, mkAnd(g.pc, r.NonNil))
			g.acc = mkOr(g.acc, mkAnd(g.pc, mkNot(r.NonNil)))
		default:
			g.fail("return of %T not understood", v)
		}
		g.pc = tFalse
	case *ast.AssignStmt:
		if len(x.Rhs) == 1 && len(x.Lhs) == 2 {
			v := g.eval(x.Rhs[0])
			tu, ok := v.(GenTuple)
			if !ok || len(tu) != 2 {
				g.fail("two-value assignment from %s not understood", render(x.Rhs[0]))
				return
			}
			g.assign(x.Lhs[0], tu[0], x.Tok == token.DEFINE)
			g.assign(x.Lhs[1], tu[1], x.Tok == token.DEFINE)
			return
		}
		if len(x.Rhs) != len(x.Lhs) {
			g.fail("assignment shape not understood")
			return
		}
		var vs []Val
		for _, r := range x.Rhs {
			vs = append(vs, g.evalRhs(r))
		}
		for i, l := range x.Lhs {
			g.assign(l, vs[i], x.Tok == token.DEFINE)
		}
	case *ast.DeclStmt:
		gd, ok := x.Decl.(*ast.GenDecl)
		if !ok {
			g.fail("declaration not understood")
			return
		}
		for _, sp := range gd.Specs {
			switch d := sp.(type) {
			case *ast.ValueSpec:
				for _, n := range d.Names {
					var v Val = GenObj{Name: n.Name}
					if d.Type != nil {
						switch render(d.Type) {
						case "[]error":
							v = GenSlice{IsNil: tTrue, Len: mkInt(0)}
						case "bool":
							v = tFalse
						case "map[string]interface{}":
							v = GenObj{Name: n.Name}
						}
					}
					g.sig.Vars[n.Name] = v
				}
			case *ast.TypeSpec:
				g.sig.Vars["type:"+d.Name.Name] = GenOpaque{What: render(d.Type)}
			}
		}
	case *ast.RangeStmt:
		over := g.eval(x.X)
		ln := g.lenOf(over, x.X)
		save := g.pc
		// generic iteration: the body is given its meaning for one arbitrary
		// element that exists (0 <= idx < len is a standing assumption, not part
		// of the path condition), so posts are proved per element
		_ = ln
		if x.Key != nil {
			idx := g.fresh("idx", SInt)
			g.sig.Vars[render(x.Key)] = idx
			g.loops = append(g.loops, loopVar{name: render(x.Key), over: render(x.X)})
		}
		if x.Value != nil {
			g.fail("range with value variable not understood")
		}
		g.stmts(x.Body.List)
		if x.Key != nil {
			g.loops = g.loops[:len(g.loops)-1]
		}
		// generic-iteration semantics: after the loop the path condition is the
		// one before it (over-approximation of the reachable states)
		g.pc = save
		g.afterLp = true
	case *ast.ExprStmt:
		g.evalForEffect(x.X)
	case *ast.EmptyStmt:
	default:
		g.fail("statement %T not understood", s)
	}
}

// evalRhs evaluates the right-hand side of an assignment; default-value
// literals (composite literals, identifiers of constants, ...) are opaque.
func (g *genInterp) evalRhs(e ast.Expr) Val {
	switch x := e.(type) {
	case *ast.CompositeLit, *ast.FuncLit:
		return GenOpaque{What: "literal"}
	case *ast.Ident:
		if _, ok := g.sig.Vars[x.Name]; !ok && x.Name != "nil" && x.Name != "true" && x.Name != "false" {
			if _, isHole := g.fr.Holes[x.Name]; !isHole {
				return GenOpaque{What: "ident " + x.Name}
			}
		}
	case *ast.CallExpr:
		if render(x.Fun) != "append" && render(x.Fun) != "len" {
			if _, ok := x.Fun.(*ast.SelectorExpr); !ok {
				return GenOpaque{What: "conversion " + render(x.Fun)}
			}
		}
	}
	return g.eval(e)
}

type FragResult struct {
	Rej, Acc, Pan, FallThrough *T
	Asg                        map[string]*T
	Errs                       []string
	Writes                     []string
}

func interpret(fr *Fragment, sig *Sigma, fresh func(string, Sort) *T, num numCtx) *FragResult {
	g := &genInterp{fr: fr, sig: sig, pc: tTrue, rej: tFalse, acc: tFalse, pan: tFalse, asg: map[string]*T{}, fresh: fresh, num: num}
	if fr.ParseErr != "" {
		return &FragResult{Rej: tFalse, Acc: tFalse, Pan: tFalse, FallThrough: tTrue, Errs: []string{"emitted text does not parse: " + fr.ParseErr}}
	}
	g.stmts(fr.Body)
	return &FragResult{Rej: g.rej, Acc: g.acc, Pan: g.pan, FallThrough: g.pc, Asg: g.asg, Errs: g.errs, Writes: g.writes}
}

// ---------------------------------------------------------------------------
// Contract-language builtins.

type sigmaSpec struct {
	binds []Val // alternating key (Text), value
}

func (c *EvalCtx) emittedText(v Val) Text {
	t, ok := v.(Text)
	if !ok {
		specErr(nil, "emitted text expected, got %T", v)
	}
	return t
}

func (c *EvalCtx) buildSigma(v Val, fr *Fragment) *Sigma {
	sp, ok := v.(sigmaSpec)
	if !ok {
		specErr(nil, "sigma(...) expected, got %T", v)
	}
	sg := &Sigma{Vars: map[string]Val{}, Heap: map[int]Val{}}
	// atoms in keys are rendered with the fragment's placeholders
	ren := func(t Text) string {
		var sb strings.Builder
		for _, f := range t.Frags {
			switch f.Kind {
			case FLit:
				sb.WriteString(f.Lit)
			case FAtom:
				found := ""
				for name, h := range fr.Holes {
					if h.Kind == FAtom && h.Atom == f.Atom {
						found = name
					}
				}
				if found == "" {
					found = "ABSENTx" + sanitize(f.Atom)
				}
				sb.WriteString(found)
			}
		}
		return sb.String()
	}
	for i := 0; i+1 < len(sp.binds); i += 2 {
		k, ok := sp.binds[i].(Text)
		if !ok {
			specErr(nil, "sigma key must be a string")
		}
		val := sp.binds[i+1]
		if gm, ok := val.(GenMap); ok {
			if kt, ok := gm.keyText.(Text); ok {
				gm.Key = ren(kt)
			}
			val = gm
		}
		if r, ok := val.(Ref); ok && !r.isNil() {
			sg.Heap[r.Cell] = c.st.load(r)
		}
		sg.Vars[ren(k)] = val
	}
	return sg
}

func (c *EvalCtx) runFragment(n *Node) (*Fragment, *FragResult) {
	em := c.emittedText(c.eval(n.Kids[0]))
	fr := prepareFragment(em)
	var sv Val = sigmaSpec{}
	if len(n.Kids) > 1 {
		sv = c.eval(n.Kids[1])
	}
	sg := c.buildSigma(sv, fr)
	seq := 0
	fresh := func(p string, s Sort) *T {
		seq++
		return mkVar(fmt.Sprintf("g2!%s!%s!%d", sanitize(c.origin), p, seq), s)
	}
	res := interpret(fr, sg, fresh, c.num())
	return fr, res
}

func (c *EvalCtx) stage2Builtin(n *Node) (Val, bool) {
	switch n.Name {
	case "emitted":
		// emitted(out): the text accumulated in the emitter's builder
		r, ok := c.eval(n.Kids[0]).(Ref)
		if !ok || r.isNil() {
			specErr(n, "emitted(out): emitter pointer expected")
		}
		em := c.st.load(r).(*Agg)
		i := structFieldIndex(em.Typ, "sb")
		t, _ := c.st.Ghost[sbKey(r.sub(i))].(Text)
		return t, true
	case "sigma":
		var sp sigmaSpec
		for _, k := range n.Kids {
			sp.binds = append(sp.binds, c.eval(k))
		}
		return sp, true
	case "ptr_to":
		v := c.eval(n.Kids[0])
		return c.st.alloc(v), true
	case "nil_ptr":
		return Ref{}, true
	case "gstr":
		return GenStr{Bytes: c.evalTerm(n.Kids[0]), Runes: c.evalTerm(n.Kids[1]), Matched: c.evalBool(n.Kids[2])}, true
	case "garr":
		k, ok := c.evalTerm(n.Kids[0]).intVal()
		if !ok {
			specErr(n, "garr: concrete depth expected")
		}
		leaf := GenSlice{IsNil: c.evalBool(n.Kids[1]), Len: c.evalTerm(n.Kids[2])}
		if k <= 1 {
			return leaf, true
		}
		return GenArr{Level: 1, Target: int(k), Leaf: leaf, Len: mkVar("g2!len!"+sanitize(c.origin), SInt)}, true
	case "gnilable":
		k, ok := c.evalTerm(n.Kids[0]).intVal()
		if !ok {
			specErr(n, "gnilable: concrete depth expected")
		}
		leaf := GenNilable{IsNil: c.evalBool(n.Kids[1])}
		if k <= 0 {
			return leaf, true
		}
		return GenArr{Level: 0, Target: int(k), Leaf: leaf, Len: mkVar("g2!len!"+sanitize(c.origin), SInt)}, true
	case "graw":
		return GenMap{IsNil: c.evalBool(n.Kids[0]), keyText: c.eval(n.Kids[1]), Has: c.evalBool(n.Kids[2]), VNil: c.evalBool(n.Kids[3])}, true
	case "gobj":
		return GenObj{Name: "obj"}, true
	case "runes_of", "bytes_of", "matched_of":
		gs, ok := c.eval(n.Kids[0]).(GenStr)
		if !ok {
			specErr(n, "%s: generated string expected", n.Name)
		}
		switch n.Name {
		case "runes_of":
			return gs.Runes, true
		case "bytes_of":
			return gs.Bytes, true
		}
		return gs.Matched, true
	case "len_of", "isnil_of":
		gs, ok := c.eval(n.Kids[0]).(GenSlice)
		if !ok {
			specErr(n, "%s: generated array expected", n.Name)
		}
		if n.Name == "len_of" {
			return gs.Len, true
		}
		return gs.IsNil, true
	case "rejects", "panics", "accepts_early", "falls_through":
		_, res := c.runFragment(n)
		c.noteFragErrs(n, res)
		switch n.Name {
		case "rejects":
			return res.Rej, true
		case "panics":
			return res.Pan, true
		case "accepts_early":
			return res.Acc, true
		}
		return res.FallThrough, true
	case "assigned":
		_, res := c.runFragment(n)
		c.noteFragErrs(n, res)
		key := c.renderKey(n, 2)
		return orFalse(res.Asg[key]), true
	case "understood":
		// the interpreter gave every construct of the fragment a meaning
		_, res := c.runFragment(n)
		return mkBool(len(res.Errs) == 0), true
	case "parses":
		fr := prepareFragment(c.emittedText(c.eval(n.Kids[0])))
		return mkBool(fr.ParseErr == ""), true
	case "recv_written_last", "raw_ready", "frags_ordered", "shadow_ok", "error_returns_only", "shadow_name":
		fr := prepareFragment(c.emittedText(c.eval(n.Kids[0])))
		if fr.ParseErr != "" {
			if n.Name == "shadow_name" {
				return lit(""), true
			}
			return tFalse, true
		}
		sk := analyseSkeleton(fr)
		switch n.Name {
		case "recv_written_last":
			return mkBool(sk.recvWrittenLast), true
		case "raw_ready":
			return mkBool(sk.rawReady), true
		case "frags_ordered":
			return mkBool(sk.fragsOrdered), true
		case "error_returns_only":
			return mkBool(sk.errorReturnsOnly), true
		case "shadow_name":
			return lit(sk.shadowName), true
		}
		decl, _ := c.eval(n.Kids[1]).(Text)
		dn, _ := decl.concrete()
		return mkBool(sk.shadowName != "" && sk.shadowName != dn && sk.shadowOf == dn && sk.plainType == sk.shadowName && sk.finalConv == dn && sk.typeDecls == 1), true
	case "has_elem":
		// has_elem(slice, dynType, field1, v1, ...): some element has that dynamic
		// type and those field values
		sl, ok := c.eval(n.Kids[0]).(SliceV)
		if !ok {
			specErr(n, "has_elem: slice expected")
		}
		want, _ := c.eval(n.Kids[1]).(Text).concrete()
		var alts []*T
		for i := 0; i < sl.Len_; i++ {
			el := c.st.load(sl.Arr.sub(sl.Lo + i))
			var base Val = el
			if iv, ok := el.(Iface); ok {
				if iv.Dyn == nil || types.TypeString(iv.Dyn, func(p *types.Package) string { return p.Name() }) != want {
					continue
				}
				base = iv.V
			}
			conj := []*T{}
			for k := 2; k+1 < len(n.Kids); k += 2 {
				fname, _ := c.eval(n.Kids[k]).(Text).concrete()
				conj = append(conj, c.valEq(n, c.sel(n, base, fname), c.eval(n.Kids[k+1])))
			}
			alts = append(alts, mkAnd(conj...))
		}
		return mkOr(alts...), true
	case "map_has":
		m, ok := c.eval(n.Kids[0]).(MapV)
		if !ok {
			specErr(n, "map_has: map expected")
		}
		if m.Cell == 0 {
			return tFalse, true
		}
		ma := c.st.Heap[m.Cell].(*MapAgg)
		key := c.eval(n.Kids[1])
		k := keyIndex(ma, key)
		if k >= 0 && k < len(ma.Oks) && ma.Oks[k] != nil {
			return ma.Oks[k], true // an entry of a symbolic map is present iff its flag says so
		}
		if k < 0 && ma.Unknown {
			// a symbolic map that was never asked about this key: unknown
			kt, _ := key.(Text)
			return mkVar("has?!"+ma.Tag+"!"+sanitize(kt.String()), SBool), true
		}
		return mkBool(k >= 0), true
	case "regexp_pattern_is":
		// every regexp.MatchString call of the fragment matches against exactly
		// the given pattern text (as a raw or interpreted string literal)
		em := c.emittedText(c.eval(n.Kids[0]))
		fr := prepareFragment(em)
		want := c.renderKey(n, 1)
		okAll, found := true, false
		if fr.File != nil {
			ast.Inspect(fr.File, func(nd ast.Node) bool {
				call, ok := nd.(*ast.CallExpr)
				if !ok || render(call.Fun) != "regexp.MatchString" || len(call.Args) < 1 {
					return true
				}
				found = true
				lit, ok := call.Args[0].(*ast.BasicLit)
				if !ok || lit.Kind != token.STRING {
					okAll = false
					return true
				}
				body := lit.Value[1 : len(lit.Value)-1]
				if body != want {
					okAll = false
				}
				return true
			})
		}
		return mkBool(found && okAll), true
	case "independent_of":
		// the emitted text does not depend on the given (unknown) string input
		em := c.emittedText(c.eval(n.Kids[0]))
		in, ok := c.eval(n.Kids[1]).(Text)
		if !ok {
			specErr(n, "independent_of: string expected")
		}
		dep := false
		for _, f := range in.Frags {
			if f.Kind != FAtom {
				continue
			}
			for _, ef := range em.Frags {
				if ef.Kind == FAtom && (ef.Atom == f.Atom || strings.Contains(ef.Atom, "("+f.Atom+")")) {
					dep = true
				}
			}
		}
		return mkBool(!dep), true
	case "mentions":
		fr := prepareFragment(c.emittedText(c.eval(n.Kids[0])))
		name := c.eval(n.Kids[1]).(Text)
		want, _ := name.concrete()
		found := false
		if fr.File != nil {
			ast.Inspect(fr.File, func(nd ast.Node) bool {
				if id, ok := nd.(*ast.Ident); ok && id.Name == want {
					found = true
				}
				return true
			})
		}
		return mkBool(found), true
	case "uses_pkg":
		fr := prepareFragment(c.emittedText(c.eval(n.Kids[0])))
		name := c.eval(n.Kids[1]).(Text)
		want, _ := name.concrete()
		found := false
		if fr.File != nil {
			ast.Inspect(fr.File, func(nd ast.Node) bool {
				if se, ok := nd.(*ast.SelectorExpr); ok {
					if id, ok := se.X.(*ast.Ident); ok && id.Name == want {
						found = true
					}
				}
				return true
			})
		}
		return mkBool(found), true
	case "all_branches_failed":
		// all_branches_failed(em, n): the first n variables the fragment declares
		// with a named type are the branch values; each one's Unmarshal failed
		fr := prepareFragment(c.emittedText(c.eval(n.Kids[0])))
		cnt, _ := c.evalTerm(n.Kids[1]).intVal()
		var names []string
		for _, st := range fr.Body {
			ds, ok := st.(*ast.DeclStmt)
			if !ok {
				continue
			}
			gd, ok := ds.Decl.(*ast.GenDecl)
			if !ok {
				continue
			}
			for _, sp := range gd.Specs {
				if vs, ok := sp.(*ast.ValueSpec); ok && vs.Type != nil {
					if _, isIdent := vs.Type.(*ast.Ident); isIdent {
						for _, nm := range vs.Names {
							names = append(names, nm.Name)
						}
					}
				}
			}
		}
		if int64(len(names)) != cnt {
			return tFalse, true
		}
		var cs []*T
		for _, nm := range names {
			cs = append(cs, mkVar("fail!"+nm, SBool))
		}
		return mkAnd(cs...), true
	case "branch_failed":
		// branch_failed(fieldName, i): the i-th anyOf branch unmarshaler failed
		t := c.eval(n.Kids[0]).(Text)
		i, _ := c.evalTerm(n.Kids[1]).intVal()
		fr := prepareFragment(c.emittedText(c.eval(n.Kids[2])))
		name := ""
		for _, f := range t.Frags {
			if f.Kind == FAtom {
				for ph, h := range fr.Holes {
					if h.Kind == FAtom && h.Atom == f.Atom {
						name += ph
					}
				}
			} else {
				name += f.Lit
			}
		}
		return mkVar(fmt.Sprintf("fail!%s_%d", name, i), SBool), true
	}
	return nil, false
}

func (c *EvalCtx) renderKey(n *Node, idx int) string {
	em := c.emittedText(c.eval(n.Kids[0]))
	fr := prepareFragment(em)
	k := c.eval(n.Kids[idx]).(Text)
	var sb strings.Builder
	for _, f := range k.Frags {
		switch f.Kind {
		case FLit:
			sb.WriteString(f.Lit)
		case FAtom:
			for name, h := range fr.Holes {
				if h.Kind == FAtom && h.Atom == f.Atom {
					sb.WriteString(name)
				}
			}
		}
	}
	return sb.String()
}

// noteFragErrs: constructs the interpreter could not give a meaning make the
// clause undecided (an execPanic), never silently true.
func (c *EvalCtx) noteFragErrs(n *Node, res *FragResult) {
	if len(res.Errs) > 0 {
		es := append([]string{}, res.Errs...)
		sort.Strings(es)
		if c.fragErrs != nil {
			*c.fragErrs = append(*c.fragErrs, es...)
			return
		}
		specErr(n, "stage 2: %s", strings.Join(es, "; "))
	}
}

// ---------------------------------------------------------------------------
// Skeleton analysis of an emitted unmarshal method (syntactic, on the AST).

type skeleton struct {
	recvWrittenLast  bool
	rawReady         bool
	fragsOrdered     bool
	errorReturnsOnly bool
	shadowName       string // N in `type N T`
	shadowOf         string // T
	plainType        string // type in `var plain X`
	finalConv        string // T in `*j = T(plain)`
	typeDecls        int
}

func mentionsIdent(n ast.Node, name string) bool {
	found := false
	ast.Inspect(n, func(x ast.Node) bool {
		if id, ok := x.(*ast.Ident); ok && id.Name == name {
			found = true
		}
		return true
	})
	return found
}

func isReturnNil(s ast.Stmt) bool {
	r, ok := s.(*ast.ReturnStmt)
	if !ok || len(r.Results) != 1 {
		return false
	}
	id, ok := r.Results[0].(*ast.Ident)
	return ok && id.Name == "nil"
}

// decodesInto reports whether the statement is `if err := <decode>(... &X ...); err != nil { return err }`
func decodesInto(s ast.Stmt, x string) bool {
	is, ok := s.(*ast.IfStmt)
	if !ok || is.Init == nil {
		return false
	}
	as, ok := is.Init.(*ast.AssignStmt)
	if !ok || len(as.Rhs) != 1 {
		return false
	}
	call, ok := as.Rhs[0].(*ast.CallExpr)
	if !ok {
		return false
	}
	fn := render(call.Fun)
	if !(strings.HasSuffix(fn, ".Unmarshal") || strings.HasSuffix(fn, ".Decode")) {
		return false
	}
	for _, a := range call.Args {
		if u, ok := a.(*ast.UnaryExpr); ok && u.Op == token.AND && render(u.X) == x {
			return true
		}
	}
	return false
}

func analyseSkeleton(fr *Fragment) *skeleton {
	sk := &skeleton{}
	body := fr.Body
	n := len(body)
	// receiver: only in the statement before the final `return nil`
	sk.recvWrittenLast = n >= 2 && isReturnNil(body[n-1])
	if sk.recvWrittenLast {
		as, ok := body[n-2].(*ast.AssignStmt)
		if !ok || len(as.Lhs) != 1 || render(as.Lhs[0]) != "*j" {
			sk.recvWrittenLast = false
		} else if call, ok := as.Rhs[0].(*ast.CallExpr); ok && len(call.Args) == 1 {
			sk.finalConv = render(call.Fun)
		}
		for i, st := range body {
			if i != n-2 && mentionsIdent(st, "j") {
				sk.recvWrittenLast = false
			}
		}
	}
	// raw: declared and decoded before any other mention
	declared, decoded := false, false
	sk.rawReady = true
	plainDecodedAt := -1
	lastB, lastAfter := -1, -1
	sk.fragsOrdered = true
	sk.errorReturnsOnly = true
	for i, st := range body {
		if ds, ok := st.(*ast.DeclStmt); ok {
			if gd, ok := ds.Decl.(*ast.GenDecl); ok {
				for _, sp := range gd.Specs {
					switch d := sp.(type) {
					case *ast.ValueSpec:
						for _, nm := range d.Names {
							if nm.Name == "raw" {
								declared = true
							}
							if nm.Name == "plain" && d.Type != nil {
								sk.plainType = render(d.Type)
							}
						}
					case *ast.TypeSpec:
						sk.typeDecls++
						sk.shadowName = d.Name.Name
						sk.shadowOf = render(d.Type)
					}
				}
				continue
			}
		}
		if decodesInto(st, "raw") {
			if !declared {
				sk.rawReady = false
			}
			decoded = true
			continue
		}
		if decodesInto(st, "plain") {
			plainDecodedAt = i
		}
		if mentionsIdent(st, "raw") && !(declared && decoded) {
			sk.rawReady = false
		}
		// fragment markers
		if es, ok := st.(*ast.ExprStmt); ok {
			if call, ok := es.X.(*ast.CallExpr); ok {
				fn := render(call.Fun)
				if strings.HasPrefix(fn, "FRAG") {
					var idx int
					kind := fn[4:5]
					fmt.Sscanf(fn[6:], "%d", &idx)
					if kind == "B" {
						if plainDecodedAt >= 0 || idx < lastB {
							sk.fragsOrdered = false
						}
						lastB = idx
					} else {
						if plainDecodedAt < 0 || idx < lastAfter {
							sk.fragsOrdered = false
						}
						lastAfter = idx
					}
				}
			}
		}
	}
	if plainDecodedAt < 0 {
		sk.fragsOrdered = false
	}
	// every return except the last returns an error value obtained from a failed call
	for i, st := range body {
		if i == n-1 {
			continue
		}
		ast.Inspect(st, func(x ast.Node) bool {
			if r, ok := x.(*ast.ReturnStmt); ok {
				if len(r.Results) != 1 || isReturnNil(r) {
					sk.errorReturnsOnly = false
				}
			}
			return true
		})
	}
	return sk
}
