package main

// Contract files: `//@` comment lines in /repo/<pkg>/contracts_verif.go
// (build tag verif). This file holds the lexer, the expression parser and the
// clause/contract structure. Evaluation is in speceval.go.

import (
	"fmt"
	"os"
	"path/filepath"
	"regexp"
	"strings"
)

type Node struct {
	Kind string // num str ident nil true false unary binary call index sel forall exists old cond deref
	Op   string
	Name string
	Lit  string
	Kids []*Node
	VarS string // forall: sort name
	Pos  string
}

func (n *Node) String() string {
	switch n.Kind {
	case "num", "ident":
		return n.Lit + n.Name
	case "str":
		return fmt.Sprintf("%q", n.Lit)
	case "nil", "true", "false":
		return n.Kind
	case "unary":
		return n.Op + n.Kids[0].String()
	case "deref":
		return "*" + n.Kids[0].String()
	case "binary":
		return "(" + n.Kids[0].String() + " " + n.Op + " " + n.Kids[1].String() + ")"
	case "call":
		var as []string
		for _, k := range n.Kids {
			as = append(as, k.String())
		}
		return n.Name + "(" + strings.Join(as, ", ") + ")"
	case "index":
		return n.Kids[0].String() + "[" + n.Kids[1].String() + "]"
	case "sel":
		return n.Kids[0].String() + "." + n.Name
	case "forall", "exists":
		return n.Kind + " " + n.Name + " " + n.VarS + " :: " + n.Kids[0].String()
	case "old":
		return "old(" + n.Kids[0].String() + ")"
	case "cond":
		return "(" + n.Kids[0].String() + " ? " + n.Kids[1].String() + " : " + n.Kids[2].String() + ")"
	}
	return "?" + n.Kind
}

type stok struct {
	k string // num str id op eof
	s string
}

func lex(src string) ([]stok, error) {
	var out []stok
	i := 0
	ops := []string{"<==>", "==>", "::", "&&", "||", "==", "!=", "<=", ">=", "<", ">", "+", "-", "*", "/", "%", "!", "(", ")", "[", "]", ",", ".", "?", ":"}
	for i < len(src) {
		c := src[i]
		switch {
		case c == ' ' || c == '\t' || c == '\n':
			i++
		case c >= '0' && c <= '9':
			j := i
			for j < len(src) && (src[j] >= '0' && src[j] <= '9' || src[j] == '.' && j+1 < len(src) && src[j+1] >= '0' && src[j+1] <= '9') {
				j++
			}
			out = append(out, stok{"num", src[i:j]})
			i = j
		case c == '"':
			j := i + 1
			for j < len(src) && src[j] != '"' {
				if src[j] == '\\' {
					j++
				}
				j++
			}
			if j >= len(src) {
				return nil, fmt.Errorf("unterminated string")
			}
			out = append(out, stok{"str", strings.ReplaceAll(src[i+1:j], `\"`, `"`)})
			i = j + 1
		case c == '_' || c >= 'a' && c <= 'z' || c >= 'A' && c <= 'Z':
			j := i
			for j < len(src) && (src[j] == '_' || src[j] >= 'a' && src[j] <= 'z' || src[j] >= 'A' && src[j] <= 'Z' || src[j] >= '0' && src[j] <= '9') {
				j++
			}
			out = append(out, stok{"id", src[i:j]})
			i = j
		default:
			found := false
			for _, op := range ops {
				if strings.HasPrefix(src[i:], op) {
					out = append(out, stok{"op", op})
					i += len(op)
					found = true
					break
				}
			}
			if !found {
				return nil, fmt.Errorf("unexpected character %q", c)
			}
		}
	}
	out = append(out, stok{"eof", ""})
	return out, nil
}

type sparser struct {
	toks []stok
	p    int
	pos  string
}

func (p *sparser) peek() stok { return p.toks[p.p] }
func (p *sparser) next() stok { t := p.toks[p.p]; p.p++; return t }
func (p *sparser) accept(op string) bool {
	if t := p.peek(); t.k == "op" && t.s == op {
		p.p++
		return true
	}
	return false
}
func (p *sparser) expect(op string) {
	if !p.accept(op) {
		panic(fmt.Errorf("%s: expected %q, found %q", p.pos, op, p.peek().s))
	}
}

func parseExpr(src, pos string) (n *Node, err error) {
	toks, err := lex(src)
	if err != nil {
		return nil, fmt.Errorf("%s: %v", pos, err)
	}
	p := &sparser{toks: toks, pos: pos}
	defer func() {
		if r := recover(); r != nil {
			if e, ok := r.(error); ok {
				err = e
				return
			}
			panic(r)
		}
	}()
	n = p.parseIff()
	if p.peek().k != "eof" {
		return nil, fmt.Errorf("%s: trailing input at %q", pos, p.peek().s)
	}
	return n, nil
}

func (p *sparser) bin(op string, a, b *Node) *Node {
	return &Node{Kind: "binary", Op: op, Kids: []*Node{a, b}, Pos: p.pos}
}

func (p *sparser) parseIff() *Node {
	a := p.parseImp()
	for p.accept("<==>") {
		a = p.bin("<==>", a, p.parseImp())
	}
	return a
}

func (p *sparser) parseImp() *Node {
	a := p.parseCond()
	if p.accept("==>") {
		return p.bin("==>", a, p.parseImp())
	}
	return a
}

func (p *sparser) parseCond() *Node {
	a := p.parseOr()
	if p.accept("?") {
		b := p.parseCond()
		p.expect(":")
		c := p.parseCond()
		return &Node{Kind: "cond", Kids: []*Node{a, b, c}, Pos: p.pos}
	}
	return a
}

func (p *sparser) parseOr() *Node {
	a := p.parseAnd()
	for p.accept("||") {
		a = p.bin("||", a, p.parseAnd())
	}
	return a
}

func (p *sparser) parseAnd() *Node {
	a := p.parseCmp()
	for p.accept("&&") {
		a = p.bin("&&", a, p.parseCmp())
	}
	return a
}

func (p *sparser) parseCmp() *Node {
	a := p.parseAdd()
	for {
		t := p.peek()
		if t.k == "op" && (t.s == "==" || t.s == "!=" || t.s == "<" || t.s == "<=" || t.s == ">" || t.s == ">=") {
			p.next()
			a = p.bin(t.s, a, p.parseAdd())
			continue
		}
		return a
	}
}

func (p *sparser) parseAdd() *Node {
	a := p.parseMul()
	for {
		t := p.peek()
		if t.k == "op" && (t.s == "+" || t.s == "-") {
			p.next()
			a = p.bin(t.s, a, p.parseMul())
			continue
		}
		return a
	}
}

func (p *sparser) parseMul() *Node {
	a := p.parseUnary()
	for {
		t := p.peek()
		if t.k == "op" && (t.s == "*" || t.s == "/" || t.s == "%") {
			p.next()
			a = p.bin(t.s, a, p.parseUnary())
			continue
		}
		return a
	}
}

func (p *sparser) parseUnary() *Node {
	if p.accept("!") {
		return &Node{Kind: "unary", Op: "!", Kids: []*Node{p.parseUnary()}, Pos: p.pos}
	}
	if p.accept("-") {
		return &Node{Kind: "unary", Op: "-", Kids: []*Node{p.parseUnary()}, Pos: p.pos}
	}
	if p.accept("*") {
		return &Node{Kind: "deref", Kids: []*Node{p.parseUnary()}, Pos: p.pos}
	}
	return p.parsePostfix()
}

func (p *sparser) parsePostfix() *Node {
	a := p.parsePrimary()
	for {
		switch {
		case p.accept("."):
			t := p.next()
			if t.k != "id" && t.k != "num" {
				panic(fmt.Errorf("%s: selector expected", p.pos))
			}
			a = &Node{Kind: "sel", Name: t.s, Kids: []*Node{a}, Pos: p.pos}
		case p.accept("["):
			i := p.parseIff()
			p.expect("]")
			a = &Node{Kind: "index", Kids: []*Node{a, i}, Pos: p.pos}
		default:
			return a
		}
	}
}

func (p *sparser) parsePrimary() *Node {
	t := p.next()
	switch t.k {
	case "num":
		return &Node{Kind: "num", Lit: t.s, Pos: p.pos}
	case "str":
		return &Node{Kind: "str", Lit: t.s, Pos: p.pos}
	case "id":
		switch t.s {
		case "nil", "true", "false":
			return &Node{Kind: t.s, Pos: p.pos}
		case "forall", "exists":
			v := p.next()
			s := p.next()
			if v.k != "id" || s.k != "id" {
				panic(fmt.Errorf("%s: %s VAR SORT :: expr", p.pos, t.s))
			}
			p.expect("::")
			body := p.parseIff()
			return &Node{Kind: t.s, Name: v.s, VarS: s.s, Kids: []*Node{body}, Pos: p.pos}
		case "old":
			p.expect("(")
			e := p.parseIff()
			p.expect(")")
			return &Node{Kind: "old", Kids: []*Node{e}, Pos: p.pos}
		}
		if p.accept("(") {
			n := &Node{Kind: "call", Name: t.s, Pos: p.pos}
			if !p.accept(")") {
				for {
					n.Kids = append(n.Kids, p.parseIff())
					if p.accept(")") {
						break
					}
					p.expect(",")
				}
			}
			return n
		}
		return &Node{Kind: "ident", Name: t.s, Pos: p.pos}
	case "op":
		if t.s == "(" {
			e := p.parseIff()
			p.expect(")")
			return e
		}
	}
	panic(fmt.Errorf("%s: unexpected token %q", p.pos, t.s))
}

// ---------------------------------------------------------------------------

type Clause struct {
	Kind  string   // requires ensures assigns shape loop assume note known ...
	Tags  []string // property ids, e.g. C05
	Label string
	Expr  *Node
	Raw   string
	Pos   string
}

type SpecFn struct {
	Name   string
	Params []string
	Body   *Node
	Pos    string
}

type Contract struct {
	Pkg     string // import path suffix, e.g. pkg/mathutils
	Func    string // e.g. NormalizeBounds or (*numericValidator).generate
	Props   []string
	Clauses []*Clause
	Pos     string
	File    string
}

// target is the function name without the scenario suffix (" @name").
func (c *Contract) target() string {
	if i := strings.Index(c.Func, "@"); i >= 0 {
		return c.Func[:i]
	}
	return c.Func
}

// sweepOnly: the contract only carries clauses of the error-propagation /
// map-iteration families; it is neither verified by execution nor applied at
// call sites.
func (c *Contract) sweepOnly() bool {
	for _, cl := range c.Clauses {
		if cl.Kind != "errdrop" && cl.Kind != "fails-only-by" && cl.Kind != "schema-equality-only-by" && cl.Kind != "decoders-come-in-pairs" && cl.Kind != "collections" && cl.Kind != "maps-keyed-by-field" && cl.Kind != "envdep" && cl.Kind != "maprange" && cl.Kind != "props" && cl.Kind != "calls-ordered" && cl.Kind != "every-iteration-calls" && cl.Kind != "iteration-local" && cl.Kind != "flag" && cl.Kind != "wires" && cl.Kind != "arg-from" && cl.Kind != "guarded" && cl.Kind != "field-from" && cl.Kind != "success-path-calls" && cl.Kind != "after-loop" && cl.Kind != "always-calls" {
			return false
		}
	}
	return true
}

// thoroughShapes: in the thorough tier `shape-thorough path = a | b` adds
// alternatives to the contract's `shape path = …` clause (wider scenarios: more
// validators, deeper nesting, more branches).
var thoroughShapes bool

func (c *Contract) clauses(kind string) []*Clause {
	var out []*Clause
	for _, cl := range c.Clauses {
		if cl.Kind == kind {
			out = append(out, cl)
		}
	}
	if kind == "shape" && thoroughShapes {
		for _, ex := range c.Clauses {
			if ex.Kind != "shape-thorough" {
				continue
			}
			eq := strings.Index(ex.Raw, "=")
			if eq < 0 {
				continue
			}
			path := strings.TrimSpace(ex.Raw[:eq])
			merged := false
			for i, cl := range out {
				if q := strings.Index(cl.Raw, "="); q >= 0 && strings.TrimSpace(cl.Raw[:q]) == path {
					cp := *cl
					cp.Raw = cl.Raw + " | " + strings.TrimSpace(ex.Raw[eq+1:])
					out[i] = &cp
					merged = true
					break
				}
			}
			if !merged {
				cp := *ex
				cp.Kind = "shape"
				out = append(out, &cp)
			}
		}
	}
	return out
}

func (c *Contract) option(key string) (string, bool) {
	for _, cl := range c.Clauses {
		if cl.Kind == "option" {
			f := strings.Fields(cl.Raw)
			if len(f) >= 1 && f[0] == key {
				return strings.TrimSpace(strings.TrimPrefix(cl.Raw, key)), true
			}
		}
	}
	return "", false
}

type Specs struct {
	Fns       map[string]*SpecFn
	Contracts []*Contract
	Files     []string
	Lines     int
	Assumes   []string // scanned assume/assume_frame/trusted clauses
}

func (s *Specs) contractFor(pkgPath, fn string) *Contract {
	// a scenario named @callsite is the one applied at call sites
	for _, c := range s.Contracts {
		if strings.HasSuffix(pkgPath, c.Pkg) && c.target() == fn && strings.HasSuffix(c.Func, "@callsite") {
			return c
		}
	}
	for _, c := range s.Contracts {
		if _, only := c.option("verify-only"); only {
			continue // a scenario contract: verified, never used in place of the body
		}
		if _, seq := c.option("seq"); seq {
			continue // sequence-mode contracts are applied by the sequence-mode executor only
		}
		if strings.HasSuffix(pkgPath, c.Pkg) && c.target() == fn && !c.sweepOnly() {
			return c
		}
	}
	return nil
}

var clauseKinds = map[string]bool{"requires": true, "ensures": true, "assigns": true, "shape": true, "shape-thorough": true, "setup": true, "loop": true,
	"assume": true, "option": true, "props": true, "lemma": true, "invariant": true, "trusted": true, "errdrop": true, "fails-only-by": true, "schema-equality-only-by": true, "decoders-come-in-pairs": true, "collections": true, "maps-keyed-by-field": true, "envdep": true, "maprange": true, "calls-ordered": true, "every-iteration-calls": true, "iteration-local": true, "flag": true, "wires": true, "arg-from": true, "guarded": true, "field-from": true, "success-path-calls": true, "after-loop": true, "always-calls": true}

var tagRe = regexp.MustCompile(`^\[([A-Za-z0-9_,\- ]+)\]\s*`)
var labelRe = regexp.MustCompile(`^([a-zA-Z_][a-zA-Z0-9_\-/]*):\s+`)

// loadSpecs reads every contracts_verif.go under root (falling back to mirror).
func loadSpecs(root string) (*Specs, error) {
	sp := &Specs{Fns: map[string]*SpecFn{}}
	var files []string
	err := filepath.Walk(root, func(path string, info os.FileInfo, err error) error {
		if err != nil {
			return nil
		}
		if info.IsDir() && (info.Name() == ".git" || info.Name() == "tests" || info.Name() == "node_modules") {
			return filepath.SkipDir
		}
		if !info.IsDir() && info.Name() == "contracts_verif.go" {
			files = append(files, path)
		}
		return nil
	})
	if err != nil {
		return nil, err
	}
	for _, f := range files {
		rel, _ := filepath.Rel(root, filepath.Dir(f))
		if rel == "." {
			rel = ""
		}
		if err := sp.parseFile(f, rel); err != nil {
			return nil, err
		}
		sp.Files = append(sp.Files, f)
	}
	return sp, nil
}

func (sp *Specs) parseFile(path, pkg string) error {
	data, err := os.ReadFile(path)
	if err != nil {
		return err
	}
	if !strings.Contains(string(data), "//go:build verif") {
		return fmt.Errorf("%s: missing //go:build verif guard", path)
	}
	type rawClause struct {
		text string
		pos  string
	}
	var raws []rawClause
	for i, line := range strings.Split(string(data), "\n") {
		tr := strings.TrimSpace(line)
		if !strings.HasPrefix(tr, "//@") {
			continue
		}
		sp.Lines++
		body := strings.TrimPrefix(tr, "//@")
		if idx := strings.Index(body, " //"); idx >= 0 { // trailing comment
			body = body[:idx]
		}
		tb := strings.TrimSpace(body)
		if tb == "" {
			continue
		}
		first := strings.Fields(tb)[0]
		if first == "spec" || first == "func" || clauseKinds[first] {
			raws = append(raws, rawClause{tb, fmt.Sprintf("%s:%d", filepath.Base(filepath.Dir(path))+"/"+filepath.Base(path), i+1)})
		} else {
			if len(raws) == 0 {
				return fmt.Errorf("%s:%d: continuation without clause", path, i+1)
			}
			raws[len(raws)-1].text += " " + tb
		}
	}
	var cur *Contract
	for _, rc := range raws {
		f := strings.Fields(rc.text)
		kw := f[0]
		rest := strings.TrimSpace(strings.TrimPrefix(rc.text, kw))
		switch kw {
		case "spec":
			// spec name(a, b) = expr
			eq := strings.Index(rest, "=")
			// find the '=' that follows the parameter list
			cp := strings.Index(rest, ")")
			if cp < 0 {
				return fmt.Errorf("%s: malformed spec", rc.pos)
			}
			eq = cp + strings.Index(rest[cp:], "=")
			head, body := rest[:cp], strings.TrimSpace(rest[eq+1:])
			op := strings.Index(head, "(")
			name := strings.TrimSpace(head[:op])
			var params []string
			for _, p := range strings.Split(head[op+1:], ",") {
				p = strings.TrimSpace(p)
				if p != "" {
					params = append(params, strings.Fields(p)[0])
				}
			}
			n, err := parseExpr(body, rc.pos)
			if err != nil {
				return err
			}
			if _, dup := sp.Fns[name]; dup {
				return fmt.Errorf("%s: duplicate spec %s", rc.pos, name)
			}
			sp.Fns[name] = &SpecFn{Name: name, Params: params, Body: n, Pos: rc.pos}
		case "func":
			cur = &Contract{Pkg: pkg, Func: strings.Replace(rest, " @", "@", 1), Pos: rc.pos, File: path}
			sp.Contracts = append(sp.Contracts, cur)
		default:
			if cur == nil {
				return fmt.Errorf("%s: clause outside func", rc.pos)
			}
			cl := &Clause{Kind: kw, Pos: rc.pos}
			if m := tagRe.FindStringSubmatch(rest); m != nil {
				for _, t := range strings.Split(m[1], ",") {
					cl.Tags = append(cl.Tags, strings.TrimSpace(t))
				}
				rest = rest[len(m[0]):]
			}
			if kw == "requires" || kw == "ensures" || kw == "lemma" || kw == "invariant" {
				if m := labelRe.FindStringSubmatch(rest); m != nil {
					cl.Label = m[1]
					rest = rest[len(m[0]):]
				}
			}
			cl.Raw = rest
			switch kw {
			case "requires", "ensures", "lemma", "invariant", "setup":
				n, err := parseExpr(rest, rc.pos)
				if err != nil {
					return err
				}
				cl.Expr = n
			case "props":
				cur.Props = append(cur.Props, strings.Fields(rest)...)
			case "assume", "trusted":
				sp.Assumes = append(sp.Assumes, fmt.Sprintf("%s %s: %s %s", rc.pos, cur.Func, kw, rest))
			}
			cur.Clauses = append(cur.Clauses, cl)
		}
	}
	return nil
}
