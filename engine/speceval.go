package main

// Evaluation of contract expressions over symbolic states.

import (
	"fmt"
	"go/types"
	"math/big"
	"strings"
	"sync/atomic"
)

type NilV struct{}

type EvalCtx struct {
	sp       *Specs
	env      map[string]Val
	st       *State // state in which the expression is evaluated
	old      *State // pre-state for old(); nil if not available
	assume   bool   // true: the expression is being assumed (callee post / requires); false: goal
	skolems  *[]*T
	lemmas   *[]*Lemma // assume mode: quantified clauses end up here
	origin   string
	ex       *Exec
	depth    int
	inOld    bool
	defs     *[]*T // sink for definitional side constraints (fresh floors)
	fragErrs *[]string
}

type specPanic struct{ msg string }

func specErr(n *Node, format string, args ...interface{}) {
	pos := ""
	if n != nil {
		pos = n.Pos + ": "
	}
	panic(specPanic{pos + fmt.Sprintf(format, args...)})
}

func (c *EvalCtx) sub(env map[string]Val) *EvalCtx {
	n := *c
	n.env = env
	n.depth++
	return &n
}

func sortOf(name string, n *Node) Sort {
	switch name {
	case "int", "Int":
		return SInt
	case "real", "Real", "float64":
		return SReal
	case "bool", "Bool":
		return SBool
	}
	specErr(n, "unknown sort %q", name)
	return SInt
}

// evalClause evaluates a top-level clause expression to a Bool term. Leading
// universal quantifiers become skolems (goal) or lemmas (assume).
func (c *EvalCtx) evalClause(n *Node) *T {
	if n.Kind == "forall" {
		if c.assume {
			// collect nested foralls
			l := &Lemma{Var: n.Name, Sort: sortOf(n.VarS, n), Body: n.Kids[0], Env: c.env, Pre: c.old, Post: c.st, Origin: c.origin}
			if c.lemmas == nil {
				specErr(n, "quantified assumption not supported here")
			}
			*c.lemmas = append(*c.lemmas, l)
			return tTrue
		}
		v := mkVar(fmt.Sprintf("%s!%s", n.Name, sanitize(c.origin)), sortOf(n.VarS, n))
		if c.skolems != nil {
			*c.skolems = append(*c.skolems, v)
		}
		env := copyEnv(c.env)
		env[n.Name] = v
		return c.sub(env).evalClause(n.Kids[0])
	}
	if n.Kind == "exists" && c.assume {
		v := mkVar(fmt.Sprintf("%s!ex!%s", n.Name, sanitize(c.origin)), sortOf(n.VarS, n))
		env := copyEnv(c.env)
		env[n.Name] = v
		return c.sub(env).evalClause(n.Kids[0])
	}
	return c.evalBool(n)
}

func sanitize(s string) string {
	r := strings.NewReplacer(" ", "_", "(", "", ")", "", "*", "", "/", ".", "#", ".", ":", ".", "[", "", "]", "", ",", ".")
	return r.Replace(s)
}

func copyEnv(e map[string]Val) map[string]Val {
	n := make(map[string]Val, len(e)+1)
	for k, v := range e {
		n[k] = v
	}
	return n
}

func (c *EvalCtx) evalBool(n *Node) *T {
	v := c.eval(n)
	t, ok := v.(*T)
	if !ok || t.Sort != SBool {
		specErr(n, "expected a boolean, got %s", describe(c.st, v, 0))
	}
	return t
}

func (c *EvalCtx) evalTerm(n *Node) *T {
	v := c.eval(n)
	t, ok := v.(*T)
	if !ok {
		specErr(n, "expected a scalar, got %s (%T)", describe(c.st, v, 0), v)
	}
	return t
}

func ratInt(i int64) *big.Rat { return new(big.Rat).SetInt64(i) }

func (c *EvalCtx) eval(n *Node) Val {
	if c.depth > 60 {
		specErr(n, "spec recursion too deep")
	}
	switch n.Kind {
	case "num":
		if strings.Contains(n.Lit, ".") {
			r, ok := new(big.Rat).SetString(n.Lit)
			if !ok {
				specErr(n, "bad number %s", n.Lit)
			}
			return mkReal(r)
		}
		i, ok := new(big.Int).SetString(n.Lit, 10)
		if !ok {
			specErr(n, "bad number %s", n.Lit)
		}
		return mkIntBig(i)
	case "str":
		return lit(n.Lit)
	case "nil":
		return NilV{}
	case "true":
		return tTrue
	case "false":
		return tFalse
	case "ident":
		if v, ok := c.env[n.Name]; ok {
			return v
		}
		if f, ok := c.sp.Fns[n.Name]; ok && len(f.Params) == 0 {
			return c.sub(map[string]Val{}).eval(f.Body)
		}
		specErr(n, "unknown identifier %q", n.Name)
	case "old":
		if c.old == nil {
			specErr(n, "old() without pre-state")
		}
		nc := *c
		nc.st = c.old
		nc.inOld = true
		return nc.eval(n.Kids[0])
	case "deref":
		v := c.eval(n.Kids[0])
		r, ok := v.(Ref)
		if !ok {
			specErr(n, "dereference of non-pointer %s", describe(c.st, v, 0))
		}
		if r.isNil() {
			specErr(n, "dereference of nil pointer in spec (%s)", n)
		}
		return c.st.load(r)
	case "sel":
		return c.sel(n, c.eval(n.Kids[0]), n.Name)
	case "index":
		base := c.eval(n.Kids[0])
		var i int64
		if _, isMap := base.(MapV); !isMap {
			idx := c.evalTerm(n.Kids[1])
			var ok bool
			i, ok = idx.intVal()
			if !ok {
				specErr(n, "symbolic index not supported")
			}
		}
		_ = i
		if m, isMap := base.(MapV); isMap {
			if m.Cell == 0 {
				specErr(n, "index of nil map")
			}
			ma := c.st.Heap[m.Cell].(*MapAgg)
			k := keyIndex(ma, c.eval(n.Kids[1]))
			if k < 0 {
				if ma.Unknown {
					specErr(n, "spec lookup of a key the code never touched in symbolic map %s", ma.Tag)
				}
				return NilV{}
			}
			return ma.Vals[k]
		}
		switch b := base.(type) {
		case SliceV:
			if int(i) < 0 || int(i) >= b.Len_ {
				specErr(n, "index %d out of range %d", i, b.Len_)
			}
			return c.st.load(b.Arr.sub(b.Lo + int(i)))
		case *Agg:
			return b.Elems[i]
		case Tuple:
			return b[i]
		}
		specErr(n, "index of %T", base)
	case "unary":
		switch n.Op {
		case "!":
			return mkNot(c.evalBool(n.Kids[0]))
		case "-":
			t := c.evalTerm(n.Kids[0])
			if t.Sort == SInt {
				return mkArith("-", mkInt(0), t)
			}
			return mkArith("-", mkReal(ratInt(0)), t)
		}
	case "cond":
		cond := c.evalBool(n.Kids[0])
		if cond.isTrue() {
			return c.eval(n.Kids[1])
		}
		if cond.isFalse() {
			return c.eval(n.Kids[2])
		}
		a, b := c.eval(n.Kids[1]), c.eval(n.Kids[2])
		at, ok1 := a.(*T)
		bt, ok2 := b.(*T)
		if !ok1 || !ok2 {
			specErr(n, "symbolic conditional over non-scalars")
		}
		return mkIte(cond, at, bt)
	case "binary":
		return c.binary(n)
	case "call":
		return c.call(n)
	case "forall", "exists":
		specErr(n, "quantifier only allowed at the top of a clause")
	}
	specErr(n, "cannot evaluate %s", n.Kind)
	return nil
}

func structFieldIndex(t types.Type, name string) int {
	if t == nil {
		return -1
	}
	st, ok := t.Underlying().(*types.Struct)
	if !ok {
		return -1
	}
	for i := 0; i < st.NumFields(); i++ {
		if st.Field(i).Name() == name {
			return i
		}
	}
	return -1
}

func (c *EvalCtx) sel(n *Node, base Val, name string) Val {
	switch b := base.(type) {
	case Ref:
		if b.isNil() {
			specErr(n, "field %s of nil pointer", name)
		}
		return c.sel(n, c.st.load(b), name)
	case Iface:
		if b.Dyn == nil {
			specErr(n, "field %s of nil interface", name)
		}
		return c.sel(n, b.V, name)
	case *Agg:
		i := structFieldIndex(b.Typ, name)
		if i < 0 {
			// embedded struct promotion (one level)
			if st, ok := b.Typ.Underlying().(*types.Struct); ok {
				for k := 0; k < st.NumFields(); k++ {
					if st.Field(k).Embedded() {
						sub := b.Elems[k]
						if r, ok := sub.(Ref); ok && !r.isNil() {
							sub = c.st.load(r)
						}
						if sa, ok := sub.(*Agg); ok && structFieldIndex(sa.Typ, name) >= 0 {
							return sa.Elems[structFieldIndex(sa.Typ, name)]
						}
					}
				}
			}
			specErr(n, "no field %s in %v", name, b.Typ)
		}
		return b.Elems[i]
	case Tuple:
		var i int
		if _, err := fmt.Sscan(name, &i); err == nil && i < len(b) {
			return b[i]
		}
	}
	specErr(n, "selector .%s on %T", name, base)
	return nil
}

func (c *EvalCtx) valEq(n *Node, a, b Val) *T {
	// call_result of a call that did not happen on this path equals nothing.
	for _, v := range []Val{a, b} {
		if o, ok := v.(Opaque); ok && strings.HasPrefix(o.Tag, "no-call:") {
			return tFalse
		}
	}
	if _, ok := a.(NilV); ok {
		a, b = b, a
	}
	if _, ok := b.(NilV); ok {
		if t, isT := a.(*T); isT && t.Sort == SBool {
			return mkNot(t) // an absent map entry reads as the zero value
		}
		switch x := a.(type) {
		case Ref:
			return mkBool(x.isNil())
		case Iface:
			return mkBool(x.Dyn == nil)
		case SliceV:
			return mkBool(x.Arr.isNil())
		case MapV:
			return mkBool(x.Cell == 0)
		case Closure:
			return mkBool(x.Fn == nil)
		case NilV:
			return tTrue
		}
		specErr(n, "comparison of %T with nil", a)
	}
	switch x := a.(type) {
	case *T:
		y, ok := b.(*T)
		if !ok {
			specErr(n, "comparison of scalar with %T", b)
		}
		return mkEq(x, y)
	case Ref:
		y, ok := b.(Ref)
		if !ok {
			specErr(n, "comparison of pointer with %T", b)
		}
		return mkBool(x == y)
	case Text:
		y, ok := b.(Text)
		if !ok {
			specErr(n, "comparison of string with %T", b)
		}
		t, ok := textEq(x, y)
		if !ok {
			specErr(n, "undecidable string comparison %s == %s", x, y)
		}
		return t
	case Iface:
		y, ok := b.(Iface)
		if !ok {
			specErr(n, "comparison of interface with %T", b)
		}
		if x.Dyn == nil || y.Dyn == nil {
			return mkBool(x.Dyn == nil && y.Dyn == nil)
		}
		if !types.Identical(x.Dyn, y.Dyn) {
			return tFalse
		}
		return c.valEq(n, x.V, y.V)
	case *Agg:
		y, ok := b.(*Agg)
		if !ok || len(x.Elems) != len(y.Elems) {
			specErr(n, "comparison of aggregate with %T", b)
		}
		var cs []*T
		for i := range x.Elems {
			cs = append(cs, c.valEq(n, x.Elems[i], y.Elems[i]))
		}
		return mkAnd(cs...)
	case SliceV:
		y, ok := b.(SliceV)
		if !ok {
			specErr(n, "comparison of slice with %T", b)
		}
		if x.Len_ != y.Len_ {
			return tFalse
		}
		var cs []*T
		for i := 0; i < x.Len_; i++ {
			cs = append(cs, c.valEq(n, c.st.load(x.Arr.sub(x.Lo+i)), c.st.load(y.Arr.sub(y.Lo+i))))
		}
		return mkAnd(cs...)
	case MapV:
		y, ok := b.(MapV)
		if !ok {
			specErr(n, "comparison of map with %T", b)
		}
		return mkBool(x.Cell == y.Cell) // identity, as for Go maps
	case Tuple:
		y, ok := b.(Tuple)
		if !ok || len(x) != len(y) {
			specErr(n, "comparison of tuple with %T", b)
		}
		var cs []*T
		for i := range x {
			cs = append(cs, c.valEq(n, x[i], y[i]))
		}
		return mkAnd(cs...)
	}
	specErr(n, "equality on %T not supported", a)
	return nil
}

func (c *EvalCtx) binary(n *Node) Val {
	switch n.Op {
	case "&&":
		a := c.evalBool(n.Kids[0])
		if a.isFalse() {
			return tFalse
		}
		return mkAnd(a, c.evalBool(n.Kids[1]))
	case "||":
		a := c.evalBool(n.Kids[0])
		if a.isTrue() {
			return tTrue
		}
		return mkOr(a, c.evalBool(n.Kids[1]))
	case "==>":
		a := c.evalBool(n.Kids[0])
		if a.isFalse() {
			return tTrue
		}
		return mkImplies(a, c.evalBool(n.Kids[1]))
	case "<==>":
		return mkIff(c.evalBool(n.Kids[0]), c.evalBool(n.Kids[1]))
	case "==":
		return c.valEq(n, c.eval(n.Kids[0]), c.eval(n.Kids[1]))
	case "!=":
		return mkNot(c.valEq(n, c.eval(n.Kids[0]), c.eval(n.Kids[1])))
	case "<", "<=", ">", ">=":
		return mkCmp(n.Op, c.evalTerm(n.Kids[0]), c.evalTerm(n.Kids[1]))
	case "+":
		a, b := c.eval(n.Kids[0]), c.eval(n.Kids[1])
		if at, ok := a.(Text); ok {
			bt, ok := b.(Text)
			if !ok {
				specErr(n, "string + %T", b)
			}
			return at.concat(bt)
		}
		at, ok1 := a.(*T)
		bt, ok2 := b.(*T)
		if !ok1 || !ok2 {
			specErr(n, "+ on %T, %T", a, b)
		}
		return mkArith("+", at, bt)
	case "-", "*":
		return mkArith(n.Op, c.evalTerm(n.Kids[0]), c.evalTerm(n.Kids[1]))
	case "/":
		a, b := c.evalTerm(n.Kids[0]), c.evalTerm(n.Kids[1])
		if b.Op != "num" || b.Num.Sign() == 0 {
			specErr(n, "division by non-constant")
		}
		if a.Op == "num" {
			return mkReal(new(big.Rat).Quo(a.Num, b.Num))
		}
		return &T{Op: "/", Args: []*T{toReal(a), toReal(b)}, Sort: SReal}
	case "%":
		return mkGoMod(c.evalTerm(n.Kids[0]), c.evalTerm(n.Kids[1]))
	}
	specErr(n, "operator %s", n.Op)
	return nil
}

func pow2(k int) *big.Int { return new(big.Int).Lsh(big.NewInt(1), uint(k)) }

// num returns the numeric helper for this context: with a definition sink
// floors become fresh integers, otherwise plain to_int terms.
func (c *EvalCtx) num() numCtx {
	if c.defs == nil {
		return plainNum
	}
	return numCtx{floorFn: func(a *T) *T { return freshIntDef(a, func(d *T) { *c.defs = append(*c.defs, d) }) }}
}

func (c *EvalCtx) call(n *Node) Val {
	arg := func(i int) Val {
		if i >= len(n.Kids) {
			specErr(n, "%s: missing argument %d", n.Name, i)
		}
		return c.eval(n.Kids[i])
	}
	iface := func(i int) Iface {
		v := arg(i)
		iv, ok := v.(Iface)
		if !ok {
			specErr(n, "%s: interface value expected, got %T", n.Name, v)
		}
		return iv
	}
	basicIs := func(iv Iface, info types.BasicInfo) bool {
		if iv.Dyn == nil {
			return false
		}
		b, ok := iv.Dyn.Underlying().(*types.Basic)
		return ok && b.Info()&info != 0 && !isNamed(iv.Dyn)
	}
	switch n.Name {
	case "is_bool":
		return mkBool(basicIs(iface(0), types.IsBoolean))
	case "is_float":
		return mkBool(basicIs(iface(0), types.IsFloat))
	case "is_string":
		return mkBool(basicIs(iface(0), types.IsString))
	case "as_bool", "as_float", "unbox":
		iv := iface(0)
		if iv.Dyn == nil {
			specErr(n, "%s of nil interface", n.Name)
		}
		return iv.V
	case "dyn":
		iv := iface(0)
		if iv.Dyn == nil {
			return lit("nil")
		}
		return lit(types.TypeString(iv.Dyn, func(p *types.Package) string { return p.Name() }))
	case "real":
		return toReal(c.evalTerm(n.Kids[0]))
	case "floor":
		return c.num().floor(c.evalTerm(n.Kids[0]))
	case "ceil":
		return c.num().ceil(c.evalTerm(n.Kids[0]))
	case "trunc64":
		return c.num().trunc64(c.evalTerm(n.Kids[0]))
	case "round":
		return c.num().round(c.evalTerm(n.Kids[0]))
	case "abs":
		t := c.evalTerm(n.Kids[0])
		var zero *T = mkInt(0)
		if t.Sort == SReal {
			zero = mkReal(ratInt(0))
		}
		return mkIte(mkCmp(">=", t, zero), t, mkArith("-", zero, t))
	case "is_int":
		t := toReal(c.evalTerm(n.Kids[0]))
		if c.assume && c.defs != nil && !isIntegral(t) {
			// assumed integrality: t is (the real image of) some fresh integer
			k := mkVar(fmt.Sprintf("int!%d", atomic.AddInt64(&freshCounter, 1)), SInt)
			return mkEq(toReal(k), t)
		}
		return mkIsInt(t)
	case "gomod":
		a, b := c.evalTerm(n.Kids[0]), c.evalTerm(n.Kids[1])
		if a.Sort != SInt || b.Sort != SInt {
			specErr(n, "gomod on non-integers")
		}
		return &T{Op: "gomod", Args: []*T{a, b}, Sort: SInt}
	case "pow2":
		k, ok := c.evalTerm(n.Kids[0]).intVal()
		if !ok {
			specErr(n, "pow2 of non-constant")
		}
		return mkIntBig(pow2(int(k)))
	case "unchanged":
		if c.old == nil {
			specErr(n, "unchanged() without pre-state")
		}
		nc := *c
		nc.st = c.old
		return c.valEq(n, c.eval(n.Kids[0]), nc.eval(n.Kids[0]))
	case "fresh":
		r, ok := arg(0).(Ref)
		if !ok {
			specErr(n, "fresh of non-pointer")
		}
		if r.isNil() {
			return tFalse
		}
		if c.old != nil {
			if _, existed := c.old.Heap[r.Cell]; existed {
				return tFalse
			}
		}
		return tTrue
	case "len":
		switch v := arg(0).(type) {
		case SliceV:
			return mkInt(int64(v.Len_))
		case Text:
			if s, ok := v.concrete(); ok {
				return mkInt(int64(len(s)))
			}
			if len(v.Frags) == 1 && v.Frags[0].Kind == FAtom {
				a := v.Frags[0].Atom
				lv := mkVar("len!"+a, SInt)
				if c.defs != nil {
					*c.defs = append(*c.defs, mkAnd(mkCmp(">=", lv, mkInt(0)), mkIff(mkEq(lv, mkInt(0)), atomEmptyVar(a))))
				}
				return lv
			}
		case MapV:
			if v.Cell == 0 {
				return mkInt(0)
			}
			if ma, ok := c.st.Heap[v.Cell].(*MapAgg); ok && !ma.Unknown {
				return mkInt(int64(len(ma.Keys)))
			}
		}
		specErr(n, "len of %T", arg(0))
	case "identifierize_of":
		t, ok := arg(0).(Text)
		if !ok {
			specErr(n, "identifierize_of: string expected")
		}
		return atom(pureAtomName("(*Caser).Identifierize", []string{t.String()}))
	case "call_failed":
		nm, _ := arg(0).(Text).concrete()
		tu, ok := c.st.Ghost["callret:"+nm].(Tuple)
		if !ok || len(tu) == 0 {
			return tFalse
		}
		if iv, ok := tu[len(tu)-1].(Iface); ok {
			return mkBool(iv.Dyn != nil)
		}
		return tFalse
	case "call_result":
		nm, _ := arg(0).(Text).concrete()
		k, _ := c.evalTerm(n.Kids[1]).intVal()
		tu, ok := c.st.Ghost["callret:"+nm].(Tuple)
		if !ok || int(k) >= len(tu) {
			return Opaque{Tag: "no-call:" + nm}
		}
		return tu[k]
	case "expected_tags":
		sl, ok := arg(0).(SliceV)
		if !ok {
			specErr(n, "expected_tags: slice expected")
		}
		name := arg(1).(Text)
		req := c.evalBool(n.Kids[2])
		if !req.isConst() {
			specErr(n, "expected_tags: required must be decided by the scenario")
		}
		out := Text{}
		for k := 0; k < sl.Len_; k++ {
			if k > 0 {
				out = out.concat(lit(" "))
			}
			out = out.concat(c.st.load(sl.Arr.sub(sl.Lo + k)).(Text)).concat(lit(`:"`)).concat(name)
			if req.isTrue() {
				out = out.concat(lit(`"`))
			} else {
				out = out.concat(lit(`,omitempty"`))
			}
		}
		return out
	case "has_suffix":
		t := arg(0).(Text)
		a, ok1 := t.concrete()
		b, ok2 := arg(1).(Text).concrete()
		if !ok1 || !ok2 {
			specErr(n, "has_suffix(literal, literal)")
		}
		return mkBool(strings.HasSuffix(a, b))
	case "has_prefix":
		t := arg(0).(Text)
		p, _ := arg(1).(Text).concrete()
		if cs, ok := t.concrete(); ok {
			return mkBool(strings.HasPrefix(cs, p))
		}
		if len(t.Frags) > 0 && t.Frags[0].Kind == FLit && len(t.Frags[0].Lit) >= len(p) {
			return mkBool(strings.HasPrefix(t.Frags[0].Lit, p)) // decided by the leading literal
		}
		if !singleAtom(t) {
			specErr(n, "has_prefix(atom, literal)")
		}
		return mkVar(fmt.Sprintf("hasprefix!%s!%q", t.Frags[0].Atom, p), SBool)
	case "lower":
		return derivedAtom("lower", arg(0).(Text))
	case "index_rune":
		t := arg(0).(Text)
		rs, _ := arg(1).(Text).concrete()
		if len(t.Frags) != 1 || t.Frags[0].Kind != FAtom || len(rs) != 1 {
			specErr(n, "index_rune(atom, \"c\")")
		}
		return mkVar(fmt.Sprintf("indexrune!%s!%d", t.Frags[0].Atom, rs[0]), SInt)
	case "substr":
		t := arg(0).(Text)
		if len(t.Frags) != 1 || t.Frags[0].Kind != FAtom {
			specErr(n, "substr of non-atom")
		}
		a := t.Frags[0].Atom
		return subAtom(a, c.evalTerm(n.Kids[1]), c.evalTerm(n.Kids[2]), mkVar("len!"+a, SInt))
	case "branches_agree", "first_branch_type":
		sl, ok := arg(0).(SliceV)
		if !ok || sl.Len_ == 0 {
			specErr(n, "%s: non-empty slice of types expected", n.Name)
		}
		typeList := func(k int) []string {
			r := c.st.load(sl.Arr.sub(sl.Lo + k)).(Ref)
			tl := c.sel(n, r, "Type").(SliceV)
			var out []string
			for i := 0; i < tl.Len_; i++ {
				s, _ := c.st.load(tl.Arr.sub(tl.Lo + i)).(Text).concrete()
				out = append(out, s)
			}
			return out
		}
		first := typeList(0)
		if n.Name == "first_branch_type" {
			// the type of branch 0 by the rules above (one level: branches carry plain type lists)
			switch {
			case len(first) == 1:
				return lit(first[0])
			case len(first) == 2 && (first[0] == "null") != (first[1] == "null"):
				if first[0] == "null" {
					return lit(first[1])
				}
				return lit(first[0])
			}
			return lit("null")
		}
		for k := 1; k < sl.Len_; k++ {
			if strings.Join(typeList(k), ",") != strings.Join(first, ",") {
				return tFalse
			}
		}
		return tTrue
	case "abs_has_error":
		k, _ := c.evalTerm(n.Kids[0]).intVal()
		return mkVar(fmt.Sprintf("hasError!v%d", k), SBool)
	case "decoded":
		k, _ := c.evalTerm(n.Kids[0]).intVal()
		fnm, _ := arg(1).(Text).concrete()
		v, ok := c.st.Ghost[fmt.Sprintf("json:%d:%s", k, fnm)]
		if !ok {
			specErr(n, "decode %d did not happen (or did not set %s) on this path", k, fnm)
		}
		return v
	case "decode_happened":
		k, _ := c.evalTerm(n.Kids[0]).intVal()
		fnm, _ := arg(1).(Text).concrete()
		_, ok := c.st.Ghost[fmt.Sprintf("json:%d:%s", k, fnm)]
		return mkBool(ok)
	case "enum_carrier":
		// the Go type the emitted `var v <carrier>` decodes into: the primitive's
		// name, or "interface{}" when the values are wrapped in a struct
		iv := iface(0)
		if iv.Dyn == nil {
			specErr(n, "enum_carrier of nil type")
		}
		switch types.TypeString(iv.Dyn, func(p *types.Package) string { return p.Name() }) {
		case "codegen.PrimitiveType":
			return c.sel(n, iv.V, "Type")
		case "*codegen.StructType":
			return lit("interface{}")
		}
		specErr(n, "enum_carrier: unexpected declared type %s", iv.Dyn)
	case "values_have_type":
		// every element's dynamic type is the named Go type ("interface{}" admits all)
		sl, ok := arg(0).(SliceV)
		if !ok {
			specErr(n, "values_have_type: slice expected")
		}
		want, okc := arg(1).(Text).concrete()
		if !okc {
			specErr(n, "values_have_type: concrete carrier expected, got %s", arg(1).(Text))
		}
		if want == "interface{}" {
			return tTrue
		}
		for k := 0; k < sl.Len_; k++ {
			el, _ := c.st.load(sl.Arr.sub(sl.Lo + k)).(Iface)
			if el.Dyn == nil || el.Dyn.String() != want {
				return tFalse
			}
		}
		return tTrue
	case "enum_consistent":
		// the listed values are of the declared JSON type (or no type is declared)
		tl, ok1 := arg(0).(SliceV)
		sl, ok2 := arg(1).(SliceV)
		if !ok1 || !ok2 {
			specErr(n, "enum_consistent(typeList, values)")
		}
		if tl.Len_ != 1 {
			return tTrue
		}
		decl, _ := c.st.load(tl.Arr.sub(tl.Lo)).(Text).concrete()
		want := map[string]string{"string": "string", "number": "float64", "integer": "float64", "boolean": "bool"}[decl]
		for k := 0; k < sl.Len_; k++ {
			el, _ := c.st.load(sl.Arr.sub(sl.Lo + k)).(Iface)
			if el.Dyn == nil || el.Dyn.String() != want {
				// (after integer coercion the values are int)
				if !(decl == "integer" && el.Dyn != nil && el.Dyn.String() == "int") {
					return tFalse
				}
			}
		}
		return tTrue
	case "count_decls":
		sl, ok := arg(0).(SliceV)
		if !ok {
			return mkInt(0)
		}
		want, _ := arg(1).(Text).concrete()
		cnt := int64(0)
		for k := 0; k < sl.Len_; k++ {
			if el, ok := c.st.load(sl.Arr.sub(sl.Lo + k)).(Iface); ok && el.Dyn != nil && types.TypeString(el.Dyn, func(p *types.Package) string { return p.Name() }) == want {
				cnt++
			}
		}
		return mkInt(cnt)
	case "count_values":
		// count_values(list, "string"): how many elements of a []interface{} have that dynamic Go type
		sl, ok := arg(0).(SliceV)
		if !ok {
			return mkInt(0)
		}
		want, _ := arg(1).(Text).concrete()
		cnt := int64(0)
		for k := 0; k < sl.Len_; k++ {
			if el, ok := c.st.load(sl.Arr.sub(sl.Lo + k)).(Iface); ok && el.Dyn != nil && el.Dyn.String() == want {
				cnt++
			}
		}
		return mkInt(cnt)
	case "validator_kinds":
		// validator_kinds(list): the dynamic types of a []validator, in order, e.g.
		// "default,string,string"
		sl, ok := arg(0).(SliceV)
		if !ok {
			if op, isOp := arg(0).(Opaque); isOp && strings.HasPrefix(op.Tag, "no-call:") {
				return lit("(no call)")
			}
			specErr(n, "validator_kinds: slice expected")
		}
		var ks []string
		for k := 0; k < sl.Len_; k++ {
			iv, ok := c.st.load(sl.Arr.sub(sl.Lo + k)).(Iface)
			if !ok || iv.Dyn == nil {
				ks = append(ks, "nil")
				continue
			}
			nm := types.TypeString(iv.Dyn, func(p *types.Package) string { return "" })
			nm = strings.TrimSuffix(strings.TrimPrefix(nm, "*"), "Validator")
			ks = append(ks, nm)
		}
		return lit(strings.Join(ks, ","))
	case "other_schema":
		// the other document the scenario loader returns (sgen(@registered))
		if r, ok := c.st.Ghost["scenario:other-schema"].(Ref); ok {
			return r
		}
		specErr(n, "other_schema: the scenario has no other document")
	case "pure_result":
		// pure_result("(*T).Method", arg...): the unknown-but-deterministic string a
		// function used through `option pure` returns for these arguments
		nm, _ := arg(0).(Text).concrete()
		var parts []string
		for k := 1; k < len(n.Kids); k++ {
			t, ok := arg(k).(Text)
			if !ok {
				specErr(n, "pure_result: string arguments expected")
			}
			parts = append(parts, t.String())
		}
		return atom(pureAtomName(nm, parts))
	case "call_arg":
		// call_arg("callee", k): the k-th argument (receiver first) of the last call of
		// the callee that was answered by its contract on this path
		nm, _ := arg(0).(Text).concrete()
		k, _ := c.evalTerm(n.Kids[1]).intVal()
		tu, ok := c.st.Ghost["callarg:"+nm].(Tuple)
		if !ok || int(k) >= len(tu) {
			return Opaque{Tag: "no-call:" + nm}
		}
		return tu[k]
	case "call_count":
		// call_count("callee"): how many calls of the callee were answered by its contract on this path
		nm, _ := arg(0).(Text).concrete()
		tu, _ := c.st.Ghost["callargs:"+nm].(Tuple)
		return mkInt(int64(len(tu)))
	case "called_with":
		// called_with("callee", k, v): some call of the callee on this path had v as its k-th argument (receiver first)
		nm, _ := arg(0).(Text).concrete()
		k, _ := c.evalTerm(n.Kids[1]).intVal()
		tu, _ := c.st.Ghost["callargs:"+nm].(Tuple)
		want := arg(2)
		var alts []*T
		for _, call := range tu {
			as, ok := call.(Tuple)
			if !ok || int(k) >= len(as) {
				continue
			}
			alts = append(alts, sameVal(as[k], want, "called_with", nil))
		}
		return mkOr(alts...)
	case "new_schema_type":
		// setup only: new_schema_type("object") is a *schemas.Type with that type list
		// ("" for none)
		tn, _ := arg(0).(Text).concrete()
		stT := c.ex.w.namedType("pkg/schemas", "Type")
		fields := map[string]Val{}
		if tn != "" {
			ar := c.st.alloc(&Agg{Elems: []Val{lit(tn)}})
			delete(c.st.Fresh, ar.Cell)
			fields["Type"] = SliceV{Arr: ar, Len_: 1, Cap: 1}
		}
		r := c.st.alloc(mkStruct(stT, fields))
		delete(c.st.Fresh, r.Cell)
		c.st.CellTypes[r.Cell] = stT
		return r
	case "scope_put":
		// setup only: scope_put(g, t, "file", "name") marks the reference node t as being
		// followed right now (an entry of Generator.inScope)
		g, ok := arg(0).(Ref)
		if !ok {
			specErr(n, "scope_put: generator expected")
		}
		qd := c.ex.w.namedType("pkg/generator", "qualifiedDefinition")
		key := mkStruct(qd, map[string]Val{"schema": c.sel(n, g, "schema"), "schemaType": arg(1), "filename": arg(2), "name": arg(3)})
		m, ok := c.sel(n, g, "inScope").(MapV)
		if !ok || m.Cell == 0 {
			specErr(n, "scope_put: generator without inScope map")
		}
		ma := c.st.Heap[m.Cell].(*MapAgg)
		c.st.Heap[m.Cell] = &MapAgg{Keys: append(append([]Val{}, ma.Keys...), key), Vals: append(append([]Val{}, ma.Vals...), zeroVal(types.NewStruct(nil, nil))), Tag: ma.Tag}
		return tTrue
	case "merge_options":
		// the option functions handed to the last mergo.Merge call, sorted by name
		if t, ok := c.st.Ghost["mergo-opts"].(Text); ok {
			return t
		}
		return lit("(no merge)")
	case "map_put":
		// setup only: map_put(m, k, v) stores an entry in the scenario's initial state
		m, ok := arg(0).(MapV)
		if !ok || m.Cell == 0 {
			specErr(n, "map_put: non-nil map expected")
		}
		ma := c.st.Heap[m.Cell].(*MapAgg)
		nm := &MapAgg{Keys: append(append([]Val{}, ma.Keys...), arg(1)), Vals: append(append([]Val{}, ma.Vals...), arg(2)), Unknown: ma.Unknown, Tag: ma.Tag}
		c.st.Heap[m.Cell] = nm
		return tTrue
	case "new_decl":
		// setup only: new_decl("Name") is a *codegen.TypeDecl still under construction
		// (no Type yet), as generateDeclaredType registers it before recursing
		nmT, ok := arg(0).(Text)
		if !ok || c.ex == nil {
			specErr(n, "new_decl: name expected")
		}
		dt := c.ex.w.namedType("pkg/codegen", "TypeDecl")
		declFields := map[string]Val{"Name": nmT}
		if len(n.Kids) > 1 { // new_decl("Name", schemaNode): the declaration made for that schema node
			declFields["SchemaType"] = arg(1)
		}
		r := c.st.alloc(mkStruct(dt, declFields))
		delete(c.st.Fresh, r.Cell)
		c.st.CellTypes[r.Cell] = dt
		return r
	case "fresh_map":
		m, ok := arg(0).(MapV)
		if !ok || m.Cell == 0 {
			return tFalse
		}
		if c.old != nil {
			if _, existed := c.old.Heap[m.Cell]; existed {
				return tFalse
			}
		}
		return tTrue
	case "cmp_equal":
		return mkVar("cmpeq!"+refTag(arg(0))+"!"+refTag(arg(1)), SBool)
	case "cmp_options_only":
		sl, ok := arg(0).(SliceV)
		if !ok {
			specErr(n, "cmp_options_only: slice expected")
		}
		allowed := map[string]bool{}
		for k := 1; k < len(n.Kids); k++ {
			s, _ := arg(k).(Text).concrete()
			allowed[s] = true
		}
		for k := 0; k < sl.Len_; k++ {
			el := c.st.load(sl.Arr.sub(sl.Lo + k))
			iv, ok := el.(Iface)
			if !ok {
				return tFalse
			}
			op, ok := iv.V.(Opaque)
			if !ok || !strings.HasPrefix(op.Tag, "cmpopt:") {
				return tFalse
			}
			p := strings.SplitN(strings.TrimPrefix(op.Tag, "cmpopt:"), ":", 2)
			switch p[0] {
			case "cmpopts.IgnoreUnexported":
			case "cmpopts.IgnoreFields":
				for _, f := range strings.Split(p[1], ",") {
					if !allowed[f] {
						return tFalse
					}
				}
			default:
				return tFalse
			}
		}
		return tTrue
	case "cmp_options_ignore":
		// cmp_options_ignore(opts, "F", ...): every listed field is ignored by some option
		sl, ok := arg(0).(SliceV)
		if !ok {
			specErr(n, "cmp_options_ignore: slice expected")
		}
		ignored := map[string]bool{}
		for k := 0; k < sl.Len_; k++ {
			if iv, ok := c.st.load(sl.Arr.sub(sl.Lo + k)).(Iface); ok {
				if op, ok := iv.V.(Opaque); ok && strings.HasPrefix(op.Tag, "cmpopt:cmpopts.IgnoreFields:") {
					for _, f := range strings.Split(strings.TrimPrefix(op.Tag, "cmpopt:cmpopts.IgnoreFields:"), ",") {
						ignored[f] = true
					}
				}
			}
		}
		for k := 1; k < len(n.Kids); k++ {
			f, _ := arg(k).(Text).concrete()
			if !ignored[f] {
				return tFalse
			}
		}
		return tTrue
	case "contains_str":
		sl, ok := arg(0).(SliceV)
		if !ok {
			specErr(n, "contains_str: slice expected")
		}
		want := arg(1)
		var alts []*T
		for k := 0; k < sl.Len_; k++ {
			alts = append(alts, c.valEq(n, c.st.load(sl.Arr.sub(sl.Lo+k)), want))
		}
		return mkOr(alts...)
	case "comment_only":
		// comment_only(text): every line of the text is, after its indentation, a
		// `//` comment, and no text of unknown content (which could hold a newline and
		// so escape the comment) is spliced into it. Pieces of a line split
		// (line0(..), line1(..)) and numbers are newline-free.
		t, ok := arg(0).(Text)
		if !ok {
			specErr(n, "comment_only: text expected")
		}
		const (
			lineStart = iota
			oneSlash
			inComment
			inSummary
		)
		state := lineStart
		for _, f := range t.Frags {
			switch f.Kind {
			case FLit:
				for _, r := range f.Lit {
					switch state {
					case lineStart:
						switch r {
						case '\x00':
							// the call-site summary of Emitter.Comment/Commentf ("emitted as
							// comment lines"), itself an obligation of those functions
							state = inSummary
						case '\t', ' ', '\n':
						case '/':
							state = oneSlash
						default:
							return tFalse
						}
					case oneSlash:
						if r != '/' {
							return tFalse
						}
						state = inComment
					case inComment, inSummary:
						if r == '\n' {
							state = lineStart
						}
					}
				}
			case FAtom:
				if state == inSummary {
					continue
				}
				if state != inComment || !(strings.HasPrefix(f.Atom, "line0(") || strings.HasPrefix(f.Atom, "line1(")) {
					return tFalse
				}
			case FNum:
				if state != inComment && state != inSummary {
					return tFalse
				}
			}
		}
		return mkBool(state == lineStart)
	case "rtype_name":
		// rtype_name(t): the type string of a modelled reflect.Type
		iv, ok := arg(0).(Iface)
		if ok {
			if o, isO := iv.V.(Opaque); isO && strings.HasPrefix(o.Tag, "rtype:") {
				return lit(strings.TrimPrefix(o.Tag, "rtype:"))
			}
		}
		specErr(n, "rtype_name: reflect.Type expected")
	case "struct_has_field":
		// struct_has_field(type, "Name"): the codegen type is a struct type with a
		// field of that Go name
		iv, ok := arg(0).(Iface)
		if !ok {
			specErr(n, "struct_has_field: codegen.Type expected")
		}
		if iv.Dyn == nil || !strings.HasSuffix(types.TypeString(iv.Dyn, nil), "codegen.StructType") {
			return tFalse
		}
		var sv Val = iv.V
		if r, isR := sv.(Ref); isR {
			sv = c.st.load(r)
		}
		sl, ok := c.sel(n, sv, "Fields").(SliceV)
		if !ok {
			specErr(n, "struct_has_field: Fields is not a concrete slice")
		}
		var alts []*T
		for k := 0; k < sl.Len_; k++ {
			alts = append(alts, c.valEq(n, c.sel(n, c.st.load(sl.Arr.sub(sl.Lo+k)), "Name"), arg(1)))
		}
		return mkOr(alts...)
	case "imports_count":
		// imports_count(imports, "path"): how many elements have that QualifiedName
		sl, ok := arg(0).(SliceV)
		if !ok {
			if op, isOp := arg(0).(Opaque); isOp {
				// the list was handed to a callee that may have changed it: unknown
				return mkVar("importscount!"+sanitize(op.Tag), SInt)
			}
			specErr(n, "imports_count: slice expected")
		}
		want := arg(1)
		total := mkInt(0)
		for k := 0; k < sl.Len_; k++ {
			total = mkArith("+", total, mkIte(c.valEq(n, c.sel(n, c.st.load(sl.Arr.sub(sl.Lo+k)), "QualifiedName"), want), mkInt(1), mkInt(0)))
		}
		return total
	case "imports_have":
		// imports_have(imports, "path"): some element's QualifiedName is the path
		sl, ok := arg(0).(SliceV)
		if !ok {
			specErr(n, "imports_have: slice expected")
		}
		want := arg(1)
		var alts []*T
		for k := 0; k < sl.Len_; k++ {
			alts = append(alts, c.valEq(n, c.sel(n, c.st.load(sl.Arr.sub(sl.Lo+k)), "QualifiedName"), want))
		}
		return mkOr(alts...)
	case "last":
		sl, ok := arg(0).(SliceV)
		if !ok || sl.Len_ == 0 {
			specErr(n, "last: non-empty slice expected")
		}
		return c.st.load(sl.Arr.sub(sl.Lo + sl.Len_ - 1))
	case "is_nillable":
		iv := iface(0)
		if iv.Dyn == nil {
			return tFalse
		}
		switch types.TypeString(iv.Dyn, func(p *types.Package) string { return p.Name() }) {
		case "*codegen.PointerType", "codegen.PointerType", "*codegen.ArrayType", "codegen.ArrayType", "codegen.MapType", "*codegen.MapType", "codegen.EmptyInterfaceType", "codegen.NullType":
			return tTrue
		case "codegen.PrimitiveType", "*codegen.StructType":
			return tFalse
		case "*codegen.NamedType", "codegen.NamedType":
			// nillable iff the declared type is; scenarios use declarations without a type
			d := c.sel(n, iv.V, "Decl")
			if r, ok := d.(Ref); ok && !r.isNil() {
				if ti, ok := c.sel(n, d, "Type").(Iface); ok && ti.Dyn == nil {
					return tFalse
				}
			}
		}
		specErr(n, "is_nillable: unknown type shape %s", iv.Dyn)
	case "contains":
		a, ok1 := arg(0).(Text)
		b, ok2 := arg(1).(Text)
		if ok1 && ok2 {
			as, o1 := a.concrete()
			bs, o2 := b.concrete()
			if o1 && o2 {
				return mkBool(strings.Contains(as, bs))
			}
		}
		specErr(n, "contains on non-concrete strings")
	case "implies_all", "and_all":
		var ts []*T
		for i := range n.Kids {
			ts = append(ts, c.evalBool(n.Kids[i]))
		}
		return mkAnd(ts...)
	}
	if v, ok := c.stage2Builtin(n); ok {
		return v
	}
	f, ok := c.sp.Fns[n.Name]
	if !ok {
		specErr(n, "unknown function %s", n.Name)
	}
	if len(f.Params) != len(n.Kids) {
		specErr(n, "%s: %d arguments, want %d", n.Name, len(n.Kids), len(f.Params))
	}
	env := map[string]Val{}
	for i, p := range f.Params {
		env[p] = arg(i)
	}
	return c.sub(env).eval(f.Body)
}

func isNamed(t types.Type) bool {
	_, ok := t.(*types.Named)
	return ok
}
