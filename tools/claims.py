# Claimed properties and not-applicable reasons (consumed by gen_manifest.py).
PENDING = "not yet built in this round: see DESIGN.md §6 for the planned contracts; no check is registered until it exists and passes its self-test"

CLAIMS = {
    "C05": {
        "level": "Proof (all inputs, no bound on values) of the bound-normalisation contract: for every finite minimum/maximum/exclusive* presence pattern and value, the interval NormalizeBounds returns admits x iff x satisfies every stated bound (exclusive wins on a tie), per side, plus frame and result-shape posts.",
        "note": "Covers pkg/mathutils.NormalizeBounds only in this entry's current form; emitted-guard meaning is added as the stage-2 contracts land.",
        "technique": "contract-based deductive verification: VCs from go/ssa discharged by SMT (LRA)",
        "design_ref": "DESIGN.md §6 C05",
    },
    "C15": {
        "level": "Proof for all bound values (stated bound: |b| not strictly between 2^53 and 2^54) and all presence/kind patterns that the type chosen under --min-sized-ints represents every admitted integer, that a bound is dropped only when the type implies it and no surviving bound moves, that the type is the narrowest, and that the schema's own numbers are not modified (frame).",
        "note": "Functions under contract: PrimitiveTypeFromJSONSchemaType (integer arm), getMinIntType, adjustForSignedBounds, adjustForUnsignedBounds, NormalizeBounds; calls between them use the callee's contract. One known finding (exclusive lower bound of exactly -2^63).",
        "technique": "contract-based deductive verification: modular VCs from go/ssa discharged by SMT (LIRA)",
        "design_ref": "DESIGN.md §6 C15",
    },
}

NOT_APPLICABLE = {p: PENDING for p in ["C01", "C02", "C03", "C04", "C06", "C07", "C08", "C09", "C10", "C11", "C12", "C13", "C14", "C16", "C17", "C18", "C19", "C20"]}
