package main

// Maps and range loops.

import (
	"fmt"
	"go/types"

	"golang.org/x/tools/go/ssa"
)

// keyIndex finds key among the map's entries; equality must be decidable.
func keyIndex(ma *MapAgg, key Val) int {
	if kr, isRef := key.(Ref); isRef { // pointer keys: identity
		for i, k := range ma.Keys {
			if r, ok := k.(Ref); ok && r == kr {
				return i
			}
		}
		return -1
	}
	if ka, isAgg := key.(*Agg); isAgg { // struct keys: field by field, all decidable
		for i, k := range ma.Keys {
			a, ok := k.(*Agg)
			if !ok || len(a.Elems) != len(ka.Elems) {
				continue
			}
			same := true
			for j := range a.Elems {
				switch x := a.Elems[j].(type) {
				case Ref:
					y, ok := ka.Elems[j].(Ref)
					same = same && ok && x == y
				case Text:
					y, ok := ka.Elems[j].(Text)
					if !ok {
						same = false
						break
					}
					eq, dec := textEq(x, y)
					if !dec || !eq.isConst() {
						unsupported("undecidable struct map key comparison %s == %s", x, y)
					}
					same = same && eq.isTrue()
				case *T:
					y, ok := ka.Elems[j].(*T)
					if !ok || !mkEq(x, y).isConst() {
						unsupported("undecidable struct map key comparison")
					}
					same = same && mkEq(x, y).isTrue()
				default:
					unsupported("struct map key field of kind %T", x)
				}
			}
			if same {
				return i
			}
		}
		return -1
	}
	if ki, isIface := key.(Iface); isIface { // interface keys: same dynamic type and same pointer / decidable value
		for i, k := range ma.Keys {
			o, ok := k.(Iface)
			if !ok {
				continue
			}
			if (ki.Dyn == nil) != (o.Dyn == nil) || (ki.Dyn != nil && !types.Identical(ki.Dyn, o.Dyn)) {
				continue
			}
			switch x := ki.V.(type) {
			case Ref:
				if y, ok := o.V.(Ref); ok && x == y {
					return i
				}
			case nil:
				if o.V == nil {
					return i
				}
			default:
				unsupported("interface map key holding %T", x)
			}
		}
		return -1
	}
	kt, ok := key.(Text)
	if !ok {
		unsupported("map key of kind %T", key)
	}
	for i, k := range ma.Keys {
		if _, isText := k.(Text); !isText {
			continue
		}
		eq, ok := textEq(k.(Text), kt)
		if ok && !eq.isConst() && singleAtom(k.(Text)) && singleAtom(kt) {
			// two different unknown strings used as keys of one map: explored under
			// the assumption that they differ (the equal case coincides with a
			// single-key run); recorded as an assumption
			mapKeyAssumptions[k.(Text).String()+" != "+kt.String()] = true
			continue
		}
		if !ok || !eq.isConst() {
			unsupported("undecidable map key comparison %s == %s", k.(Text), kt)
		}
		if eq.isTrue() {
			return i
		}
	}
	return -1
}

func (e *Exec) mapUpdate(s *State, i *ssa.MapUpdate) string {
	m, ok := e.val(s, i.Map).(MapV)
	if !ok {
		unsupported("map update on %T", e.val(s, i.Map))
	}
	if m.Cell == 0 {
		return "assignment to entry in nil map"
	}
	ma := s.Heap[m.Cell].(*MapAgg)
	key, val := e.val(s, i.Key), e.val(s, i.Value)
	n := &MapAgg{Keys: append([]Val{}, ma.Keys...), Vals: append([]Val{}, ma.Vals...), Oks: append([]*T{}, ma.Oks...), Unknown: ma.Unknown, Tag: ma.Tag}
	for len(n.Oks) < len(n.Keys) {
		n.Oks = append(n.Oks, tTrue)
	}
	if k := keyIndex(ma, key); k >= 0 {
		n.Vals[k] = val
		n.Oks[k] = tTrue
	} else {
		n.Keys = append(n.Keys, key)
		n.Vals = append(n.Vals, val)
		n.Oks = append(n.Oks, tTrue)
	}
	n.Writes = append(append([]Val{}, ma.Writes...), key)
	s.Heap[m.Cell] = n
	return ""
}

func (e *Exec) lookup(s *State, i *ssa.Lookup) Val {
	m, ok := e.val(s, i.X).(MapV)
	if !ok {
		unsupported("lookup on %T", e.val(s, i.X))
	}
	elemT := i.X.Type().Underlying().(*types.Map).Elem()
	key := e.val(s, i.Index)
	ret := func(v Val, ok *T) Val {
		if i.CommaOk {
			return Tuple{v, ok}
		}
		return v
	}
	if m.Cell == 0 {
		return ret(zeroVal(elemT), tFalse)
	}
	ma := s.Heap[m.Cell].(*MapAgg)
	if k := keyIndex(ma, key); k >= 0 {
		okT := tTrue
		if k < len(ma.Oks) {
			okT = ma.Oks[k]
		}
		return ret(ma.Vals[k], okT)
	}
	if !ma.Unknown {
		return ret(zeroVal(elemT), tFalse)
	}
	// symbolic map: an unknown entry; remembered so later lookups agree. A Go
	// map lookup yields the zero value when the key is absent.
	kt := key.(Text)
	okv := e.fresh("has!"+ma.Tag+"!"+sanitize(kt.String()), SBool)
	present := e.havocByType(s, elemT, "val!"+ma.Tag+"!"+sanitize(kt.String()))
	var v Val = present
	if pt, isT := present.(*T); isT {
		v = mkIte(okv, pt, zeroVal(elemT).(*T))
	}
	n := &MapAgg{Keys: append(append([]Val{}, ma.Keys...), key), Vals: append(append([]Val{}, ma.Vals...), v), Oks: append(append([]*T{}, ma.Oks...), okv), Unknown: true, Tag: ma.Tag, Writes: ma.Writes}
	for len(n.Oks) < len(n.Keys) {
		n.Oks = append([]*T{tTrue}, n.Oks...)
	}
	s.Heap[m.Cell] = n
	// the entry describes the map's INITIAL content (a written key is found above):
	// the pre-state snapshot of the contract under verification learns it too, so
	// that old(...) in a post speaks about the same unknown
	if e.curCtx != nil && e.curCtx.pre != nil {
		if pm, ok := e.curCtx.pre.Heap[m.Cell].(*MapAgg); ok && pm.Unknown && keyIndex(pm, key) < 0 {
			p2 := &MapAgg{Keys: append(append([]Val{}, pm.Keys...), key), Vals: append(append([]Val{}, pm.Vals...), v), Oks: append(append([]*T{}, pm.Oks...), okv), Unknown: true, Tag: pm.Tag, Writes: pm.Writes}
			for len(p2.Oks) < len(p2.Keys) {
				p2.Oks = append([]*T{tTrue}, p2.Oks...)
			}
			e.curCtx.pre.Heap[m.Cell] = p2
		}
	}
	return ret(v, okv)
}

// MapIter is the iterator of a `range` over a concrete map. Go's order is
// unspecified: contracts with `option both-map-orders` are verified once in
// insertion order and once reversed, and their posts must hold in both.
type MapIter struct {
	Cell  int
	Order []int
	Key   string // ghost key holding the position
}

func (e *Exec) rangeNext(s *State, b *ssa.BasicBlock, idx int, prev *ssa.BasicBlock, ins ssa.Instruction) ([]Out, bool) {
	env := s.top().Env
	switch i := ins.(type) {
	case *ssa.Range:
		m, ok := e.val(s, i.X).(MapV)
		if !ok {
			unsupported("range over %T not modelled", e.val(s, i.X))
		}
		it := MapIter{Cell: m.Cell, Key: fmt.Sprintf("iter:%d:%s:%d", len(s.Frames), i.Name(), s.Visits[b])}
		if m.Cell != 0 {
			ma := s.Heap[m.Cell].(*MapAgg)
			if ma.Unknown {
				unsupported("range over a symbolic map")
			}
			for k := range ma.Keys {
				it.Order = append(it.Order, k)
			}
			if o, _ := s.Ghost["maporder"].(Text); len(o.Frags) == 1 && o.Frags[0].Lit == "rev" {
				for l, r := 0, len(it.Order)-1; l < r; l, r = l+1, r-1 {
					it.Order[l], it.Order[r] = it.Order[r], it.Order[l]
				}
			}
		}
		s.Ghost[it.Key] = mkInt(0)
		env[i] = it
		return nil, false
	case *ssa.Next:
		it, ok := e.val(s, i.Iter).(MapIter)
		if !ok {
			unsupported("next over %T not modelled", e.val(s, i.Iter))
		}
		pos := 0
		if pv, ok := s.Ghost[it.Key].(*T); ok {
			p, _ := pv.intVal()
			pos = int(p)
		}
		mt := i.Iter.(*ssa.Range).X.Type().Underlying().(*types.Map)
		if pos >= len(it.Order) {
			env[i] = Tuple{tFalse, zeroVal(mt.Key()), zeroVal(mt.Elem())}
			return nil, false
		}
		ma := s.Heap[it.Cell].(*MapAgg)
		k := it.Order[pos]
		s.Ghost[it.Key] = mkInt(int64(pos + 1))
		env[i] = Tuple{tTrue, ma.Keys[k], ma.Vals[k]}
		return nil, false
	}
	unsupported("range instruction %T", ins)
	return nil, true
}

var mapKeyAssumptions = map[string]bool{}

func singleAtom(t Text) bool { return len(t.Frags) == 1 && t.Frags[0].Kind == FAtom }
